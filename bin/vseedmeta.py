import json, os, re, sys
r4 = {"C01":"missed first; caught after record mode with reordering / duplication on the server's UDP sockets",
"C02":"missed first; caught after silent players over plain TCP and over a completed HTTP tunnel in c02t",
"C03":"caught","C04":"missed first; caught after every ordered pair of frames (zero-length ones included)",
"C05":"missed first; caught after each line's value is also emptied or cut after its first field",
"C06":"caught","C07":"caught","C08":"missed first; caught after the quirk class and re-inspected single units","C09":"caught",
"C10":"missed first; caught after user names and realms with backslashes, semicolons and commas",
"C11":"missed first; caught after the paired-then-silent tunnel scenario","C12":"caught (repeats C12-1)",
"C13":"missed first; caught after the client's UDP sockets are tracked and the first odd-port bind fails",
"C14":"missed first; caught after the end-to-end scenario whose stream restarts with another SSRC",
"C15":"missed first; caught after half of the NTP traces use an unreliable-mode receiver","C16":"caught",
"C17":"missed first; caught after the redirect case whose request URL says rtsp:// on a TLS connection","C18":"caught",
"C19":"missed first; caught after two native IPv6 peers","C20":"caught"}
r5 = {"C01":"caught","C02":"missed first; caught after the sign-of-life schedules of spec/ConnDeadline.tla (sparse TCP peers in c02t)",
"C03":"caught","C04":"caught","C05":"caught","C06":"caught",
"C07":"missed first; caught after loss bursts (same loss in consecutive frames) in spec/Depacketizer.tla",
"C08":"missed first; caught after static-Q M-JPEG packets and smallest-size units in the histories",
"C09":"missed first; caught after earlier parsed values are re-inspected after later parses",
"C10":"missed first; caught after accepted authorizations are replayed on another request of the connection",
"C11":"caught","C12":"missed first; caught after the trail_frames behaviour and a packet callback that asks for packet times",
"C13":"missed first; caught after aborted HTTP-tunnel halves and the census of accepted sockets",
"C14":"caught","C15":"caught","C16":"caught",
"C17":"missed first; caught after redirect chains generated from spec/RedirectChain.tla",
"C18":"caught","C19":"caught","C20":"missed first; caught after play conversations through a relay that makes media controls absolute URLs"}
r8 = {"C01":"missed first; caught after the ping scenario (requests answered while frames are written to the same connection)",
"C02":"NOT detected: the change concerns a second control connection of one session (a visitor whose request fails); the C02 model and Level A speak about one control connection per conversation - see DESIGN.md, eighth round",
"C03":"missed first; caught after KLV limits 16..20 and consecutive units across the BER length thresholds",
"C04":"missed first; caught after Still (earlier requests / responses re-inspected after later reads)",
"C05":"missed first by C05 (caught by C09 as it stood); caught by C05 after MIKEY with KV=SPI and an empty SPI",
"C06":"caught","C07":"caught","C08":"caught","C09":"caught","C10":"caught",
"C11":"missed first by C11 (caught by C05 and C09 as they stood); caught by C11 after class sdp_mikey_short",
"C12":"caught (repeats C12-6)","C13":"caught",
"C14":"missed first; caught after the end-to-end order scenario (UDP client with AnyPortEnable)",
"C15":"caught (repeats C15-6)","C16":"caught",
"C17":"missed first; caught after mode auto (automatic fallback from UDP to TCP in a secure session)",
"C18":"caught","C19":"missed first; caught after the per-media source scenario","C20":"caught"}
for rnd, tbl, logf in ((8, r8, '/tmp/wt8/confirm.log'),):
    log = open(logf).read() if os.path.exists(logf) else ""
    for pid, res in tbl.items():
        d = '/verif/seeded/%s-%d' % (pid, rnd)
        if not os.path.isdir(d): continue
        patch = open(d+'/patch.diff').read() if os.path.exists(d+'/patch.diff') else ""
        files = re.findall(r'^\+\+\+ b/(\S+)', patch, re.M)
        m = re.search(r"seed %s-%d: demo_with_change_rc=(\d+) .*demo_without_rc=(\d+) .*build_rc=(\d+) suite_rc=(\d+)" % (pid, rnd), log)
        conf = "pending"
        if m:
            conf = {"demo_fails_with_change": m.group(1) != "0", "demo_passes_without": m.group(2) == "0",
                    "suite_passes_with_change": m.group(4) == "0", "by": "bin/vseedconfirm in the scratch worktree"}
        meta = {"property": pid, "round": rnd, "files_changed": files, "description": "see REPORT.md (written by the seeding agent)",
                "checks_run": "%s quick: %s" % (pid, res), "confirmed": conf}
        json.dump(meta, open(d+'/meta.json', 'w'), indent=1)
print("done")
