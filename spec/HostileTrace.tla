---------------------------- MODULE HostileTrace ----------------------------
EXTENDS TraceIO, HostileProp
ResetAct == HReset2
StepAct ==
  \/ Is("hostile")    /\ Hostile(Ev.cls, Ev.outcome)
  \/ Is("expired")    /\ Expired(Ev.closed)
  \/ Is("probe")      /\ Probe(Ev.ok)
  \/ Is("conn_open")  /\ ConnOpen
  \/ Is("conn_close") /\ ConnClose
  \/ Is("sess_open")  /\ SessOpen
  \/ Is("sess_close") /\ SessClose
  \/ Is("census")     /\ Census(Ev.conns, Ev.sessions, Ev.udp, Ev.readers, Ev.goroutines)
  \/ Is("end")        /\ UNCHANGED hvars2
Next == TraceNext(ResetAct, StepAct, UNCHANGED hvars2)
Init == TraceInit /\ HInit2
Spec == Init /\ [][Next]_<<tvars, hvars2>>
=============================================================================
