----------------------------- MODULE HeaderProp -----------------------------
(***************************************************************************)
(* Level A (property) specification for C09: RTSP header codecs            *)
(* (Transport, Session, Range, RTP-Info, WWW-Authenticate, Authorization,  *)
(* KeyMgmt / MIKEY).                                                       *)
(*                                                                         *)
(* RoundTrip(h, eq, pure, det, panicked): a well-formed value of header h  *)
(* was marshalled (twice: pure = same bytes both times), the result parsed *)
(* repeatedly (det = every repetition gave the same value) and compared    *)
(* with the original (eq).                                                 *)
(* Parse(h, det, panicked): an arbitrary string was parsed repeatedly; det *)
(* = every repetition gave the same value or the same failure.             *)
(***************************************************************************)
EXTENDS Naturals

VARIABLES nrt, nparse
hvars == <<nrt, nparse>>
HInit == nrt = 0 /\ nparse = 0
HReset == nrt' = 0 /\ nparse' = 0

RoundTrip(h, eq, pure, det, panicked) ==
  /\ ~panicked /\ eq /\ pure /\ det
  /\ nrt' = nrt + 1 /\ UNCHANGED nparse

Parse(h, det, panicked) ==
  /\ ~panicked /\ det
  /\ nparse' = nparse + 1 /\ UNCHANGED nrt
=============================================================================
