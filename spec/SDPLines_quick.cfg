SPECIFICATION Spec
CONSTANTS
  MaxLen = 4
  Keys <- AllKeys
INVARIANT AttrPlacement
INVARIANT StateOK
CHECK_DEADLOCK FALSE
