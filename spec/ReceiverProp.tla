---------------------------- MODULE ReceiverProp ----------------------------
(***************************************************************************)
(* Level A (property) specification for C14: pkg/rtpreceiver.Receiver.     *)
(*                                                                         *)
(* Observable events: Proc(seq, out, lost) = one ProcessPacket2 call with  *)
(* the sequence numbers it returned and the loss it reported;              *)
(* Stats(received, lost, lastSeq); Report(cycles, seq, totalLost, frac).   *)
(*                                                                         *)
(* The specification says WHAT may be delivered, never HOW it is buffered: *)
(*  - unreliable transport: delivered sequence numbers strictly increase   *)
(*    (mod M, forward distance below M/2); nothing is delivered twice;     *)
(*    only packets that arrived are delivered; a packet that arrived less  *)
(*    than S positions ahead is held (`pending`) until it is delivered -   *)
(*    delivery may never pass over a pending packet;                       *)
(*  - `lost` of a call = sequence numbers skipped between consecutively    *)
(*    delivered packets of that call;                                      *)
(*  - after more than S consecutive arrivals behind the last delivered     *)
(*    packet the sender is taken to have restarted and the arriving packet *)
(*    is delivered (ordering and accounting are exempt at that step);      *)
(*  - statistics and receiver reports agree with the delivered history.    *)
(* Permissive where the statement is silent: restart may already be        *)
(* declared at the S-th consecutive arrival behind; the loss and the cycle *)
(* count attributed to a restart step are left open.                       *)
(***************************************************************************)
EXTENDS Naturals, Sequences, FiniteSets

CONSTANT M            \* sequence number modulus (65536; 16 for exhaustive runs)

VARIABLES S,          \* reorder buffer size
          unrel,      \* unreliable transport (reordering + de-duplication on)
          first,      \* a packet has been processed
          last,       \* last delivered sequence number
          pending,    \* arrived, ahead of `last`, not delivered yet
          negRun,     \* consecutive arrivals behind `last`
          delivered,  \* packets delivered in total
          lostTot, lostSince, rlSince,
          cyc,        \* certain wrap-arounds of the delivered sequence
          fuzz        \* steps whose effect on the cycle count is left open

avars == <<S, unrel, first, last, pending, negRun, delivered, lostTot, lostSince,
           rlSince, cyc, fuzz>>

Half == M \div 2
Fwd(a, b) == (b + M - a) % M          \* forward distance from a to b

AInit(s, u) ==
  /\ S = s /\ unrel = u /\ first = FALSE /\ last = 0 /\ pending = {}
  /\ negRun = 0 /\ delivered = 0 /\ lostTot = 0 /\ lostSince = 0 /\ rlSince = 0
  /\ cyc = 0 /\ fuzz = 0

AReset(s, u) ==
  /\ S' = s /\ unrel' = u /\ first' = FALSE /\ last' = 0 /\ pending' = {}
  /\ negRun' = 0 /\ delivered' = 0 /\ lostTot' = 0 /\ lostSince' = 0 /\ rlSince' = 0
  /\ cyc' = 0 /\ fuzz' = 0

Behind(seq) == Fwd(last, seq) = 0 \/ Fwd(last, seq) > Half

\* out is strictly increasing starting after `from`
RECURSIVE Increasing(_, _)
Increasing(from, out) ==
  IF out = <<>> THEN TRUE
  ELSE /\ Fwd(from, Head(out)) \in 1..Half
       /\ Increasing(Head(out), Tail(out))

RECURSIVE Skipped(_, _)
Skipped(from, out) ==
  IF out = <<>> THEN 0
  ELSE (Fwd(from, Head(out)) - 1) + Skipped(Head(out), Tail(out))

RECURSIVE Wraps(_, _)
Wraps(from, out) ==
  IF out = <<>> THEN 0
  ELSE (IF Head(out) < from THEN 1 ELSE 0) + Wraps(Head(out), Tail(out))

Range(s) == {s[i] : i \in DOMAIN s}
LastOf(out) == out[Len(out)]

Account(n, lost) ==
  /\ delivered' = delivered + n
  /\ lostTot' = lostTot + lost
  /\ lostSince' = lostSince + lost
  /\ rlSince' = rlSince + n + lost

\* ---- the very first packet -------------------------------------------------
ProcFirst(seq, out, lost) ==
  /\ ~first
  /\ out = <<seq>> /\ lost = 0
  /\ first' = TRUE /\ last' = seq
  /\ Account(1, 0)
  /\ UNCHANGED <<S, unrel, pending, negRun, cyc, fuzz>>

\* ---- reliable transport: every packet is handed over at once ----------------
ProcReliable(seq, out, lost) ==
  /\ first /\ ~unrel
  /\ out = <<seq>>
  /\ lost = (Fwd(last, seq) + M - 1) % M
  /\ last' = seq
  /\ Account(1, lost)
  /\ IF Fwd(last, seq) \in 1..(Half - 1)
     THEN cyc' = cyc + (IF seq < last THEN 1 ELSE 0) /\ fuzz' = fuzz
     ELSE cyc' = cyc /\ fuzz' = fuzz + 1          \* duplicate / backward jump: open
  /\ UNCHANGED <<S, unrel, first, pending, negRun>>

\* ---- unreliable transport ----------------------------------------------------
\* an arrival behind the last delivered packet: duplicate, late, or a restart
ProcBehindDrop(seq, out, lost) ==
  /\ first /\ unrel /\ Behind(seq)
  /\ negRun + 1 <= S                       \* not yet forced to follow the restart
  /\ out = <<>> /\ lost = 0
  /\ negRun' = negRun + 1
  /\ UNCHANGED <<S, unrel, first, last, pending, delivered, lostTot, lostSince,
                 rlSince, cyc, fuzz>>

ProcRestart(seq, out, lost) ==
  /\ first /\ unrel /\ Behind(seq)
  /\ negRun + 1 >= S                       \* enough evidence (mandatory at S+1)
  /\ out = <<seq>>
  /\ last' = seq /\ pending' = {} /\ negRun' = 0
  /\ Account(1, lost)                      \* loss attributed to a restart: open
  /\ cyc' = cyc /\ fuzz' = fuzz + 1
  /\ UNCHANGED <<S, unrel, first>>

\* an arrival ahead of the last delivered packet
ProcAhead(seq, out, lost) ==
  /\ first /\ unrel /\ ~Behind(seq)
  /\ negRun' = 0
  /\ LET have == pending \cup {seq}
         must == IF Fwd(last, seq) - 1 < S THEN have ELSE pending
                 \* closer than S positions: must be kept until delivered
         newLast == IF out = <<>> THEN last ELSE LastOf(out)
     IN /\ Increasing(last, out)
        /\ Range(out) \subseteq have                    \* only what arrived, once
        /\ Cardinality(Range(out)) = Len(out)
        /\ lost = Skipped(last, out)
        /\ last' = newLast
        /\ pending' = must \ Range(out)
        /\ \A p \in pending' : Fwd(newLast, p) \in 1..Half   \* nothing passed over
        /\ Account(Len(out), lost)
        /\ cyc' = cyc + Wraps(last, out) /\ fuzz' = fuzz
  /\ UNCHANGED <<S, unrel, first>>

Proc(seq, out, lost) ==
  \/ ProcFirst(seq, out, lost)
  \/ ProcReliable(seq, out, lost)
  \/ ProcBehindDrop(seq, out, lost)
  \/ ProcRestart(seq, out, lost)
  \/ ProcAhead(seq, out, lost)

\* ---- observations --------------------------------------------------------------
Stats(recv, lst, lastSeq) ==
  /\ first
  /\ recv = delivered /\ lst = lostTot /\ lastSeq = last
  /\ UNCHANGED avars

Min(a, b) == IF a < b THEN a ELSE b
Cap24 == 16777215

Report(cycles, seq, total, frac) ==
  /\ first
  /\ seq = last
  /\ cycles \in cyc..(cyc + fuzz)
  /\ total = Min(lostTot, Cap24)
  /\ frac = IF rlSince = 0 THEN 0 ELSE ((Min(lostSince, Cap24) * 256) \div rlSince) % 256
  /\ lostSince' = 0 /\ rlSince' = 0
  /\ UNCHANGED <<S, unrel, first, last, pending, negRun, delivered, lostTot, cyc, fuzz>>

\* End to end (a client reading over an unreliable transport): a sender that restarts - new SSRC,
\* sequence numbers starting elsewhere - is followed again after at most buffer size plus one packets.
RestartE2E(followed, after, s) ==
  /\ followed /\ after <= s + 1
  /\ UNCHANGED avars

\* End to end (a client reading over UDP, whatever the options it was set up with): what reaches the
\* packet callback has strictly increasing sequence numbers - a datagram that arrives twice is
\* delivered once, one that arrives late by less than the buffer size is delivered in its place
OrderE2E(increasing, ndlv, sent) ==
  /\ increasing /\ ndlv = sent
  /\ UNCHANGED avars

AInv ==
  /\ \A p \in pending : Fwd(last, p) \in 1..Half
  /\ negRun <= S
  /\ lostSince <= lostTot
=============================================================================
