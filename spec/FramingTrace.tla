---------------------------- MODULE FramingTrace ----------------------------
EXTENDS TraceIO, FramingProp
ResetAct == FReset
StepAct ==
  \/ Is("wr")    /\ Wr(Ev.id)
  \/ Is("rd")    /\ Rd(Ev.id, Ev.same)
  \/ Is("still") /\ Still(Ev.id, Ev.same)
  \/ Is("rdeof") /\ RdEof
  \/ Is("rderr") /\ RdErr
  \/ Is("limit") /\ Limit(Ev.what, Ev.rel, Ev.accepted, Ev.bufOk)
  \/ Is("limitsame") /\ LimitSame(Ev.what, Ev.rel, Ev.whole, Ev.pieces)
  \/ Is("end")   /\ (written = 0 \/ eof) /\ UNCHANGED fvars
Next == TraceNext(ResetAct, StepAct, UNCHANGED fvars)
Init == TraceInit /\ FInit
Spec == Init /\ [][Next]_<<tvars, fvars>>
=============================================================================
