SPECIFICATION Spec
CONSTANTS
  L = 40
  AggHdr = 1
  PerUnit = 2
  FuHdr = 2
  Consumed = 1
  SingleLE = TRUE
  MaxUnits = 5
  FillMode = TRUE
  SmallSet <- SmallSizes
  LaterBatch = FALSE
  SizeSet <- NoSizes
INVARIANT SizeOK
INVARIANT Conserved
INVARIANT NonEmpty
CHECK_DEADLOCK FALSE
