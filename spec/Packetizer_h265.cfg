SPECIFICATION Spec
CONSTANTS
  L = 20
  AggHdr = 2
  PerUnit = 2
  FuHdr = 3
  Consumed = 2
  SingleLE = FALSE
  MaxUnits = 3
  FillMode = FALSE
  SmallSet <- NoSizes
  LaterBatch = TRUE
  SizeSet <- SizesAll265
INVARIANT SizeOK
INVARIANT Conserved
INVARIANT NonEmpty
CHECK_DEADLOCK FALSE
