--------------------------- MODULE TunnelPairTrace ---------------------------
EXTENDS TraceIO, TunnelPair
ResetAct == TPairReset
StepAct ==
  \/ Is("tget")  /\ GetAnswer(Ev.c, Ev.k) /\ UNCHANGED <<hist, beh>>
  \/ Is("tpost") /\ PostAfterRegs(Ev.c, Ev.k, Ev.paired) /\ UNCHANGED <<hist, beh>>
  \/ Is("tgone") /\ Gone(Ev.c) /\ UNCHANGED <<hist, beh>>
  \/ Is("end")   /\ UNCHANGED tpv
Next == TraceNext(ResetAct, StepAct, UNCHANGED tpv)
Init == TraceInit /\ TPairInit
SpecT == Init /\ [][Next]_<<tvars, tpv>>
=============================================================================
