-------------------------- MODULE TimestampsInd --------------------------
(***************************************************************************)
(* The continuation step of Timestamps.tla at the REAL width (32-bit RTP    *)
(* timestamps) and without a bound on the number of steps, for Apalache:    *)
(* the decoder keeps the last timestamp `cur` and the extended value `acc`; *)
(* a packet whose timestamp is d ticks away (|d| < 2^31, forward or         *)
(* backward, across any number of wrap-arounds) is decoded by taking the    *)
(* difference modulo 2^32 as a SIGNED 32-bit number (rtptime: int32(ts -    *)
(* prev)) and adding it.  `sum` is the ghost sum of the true steps.         *)
(* IndInv (acc = sum, cur in range) is inductive: the PTS difference        *)
(* between any two packets equals the signed differences accumulated along  *)
(* the way (C15), for every start and every step sequence.                  *)
(***************************************************************************)
EXTENDS Integers

VARIABLES
  \* @type: Int;
  cur,
  \* @type: Int;
  acc,
  \* @type: Int;
  sum

W == 4294967296
H == 2147483648

Init == cur \in 0..(W - 1) /\ acc = 0 /\ sum = 0

Next ==
  \E d \in (1 - H)..(H - 1) :
    LET ts == (cur + d + W) % W            \* the sender's next timestamp
        du == (ts - cur + W) % W           \* what the receiver computes, unsigned
        ds == IF du >= H THEN du - W ELSE du
    IN /\ cur' = ts
       /\ acc' = acc + ds
       /\ sum' = sum + d

IndInv == cur >= 0 /\ cur < W /\ acc = sum
IndInit == cur \in Int /\ acc \in Int /\ sum \in Int /\ IndInv
==========================================================================
