SPECIFICATION Spec
CONSTANT M = 65536
CHECK_DEADLOCK FALSE
INVARIANT TraceConsumed
POSTCONDITION TraceComplete
