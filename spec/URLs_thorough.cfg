SPECIFICATION Spec
CONSTANTS
  MaxSegs = 2
  MaxSegLen = 2
  MaxQueryLen = 4
  PathTokens <- PT
  QueryTokens <- QT
INVARIANT InverseHolds
CHECK_DEADLOCK FALSE
