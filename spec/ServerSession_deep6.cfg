SPECIFICATION Spec
CONSTANTS
  MaxReq = 6
  McastEnabled = FALSE
  Protos <- ProtosUT
  UDPEnabled = TRUE
  HasRecord = TRUE
  HasPlay = TRUE
  HasPause = TRUE
  Tracks = {0}
  MethodSet <- MainMethods
  ShSet <- NoUnknown
INVARIANT BImpliesA
INVARIANT Agreement
CHECK_DEADLOCK FALSE
