------------------------- MODULE ConnDeadlineInd -------------------------
(***************************************************************************)
(* Unbounded version of ConnDeadline for Apalache: any timeout T >= 2,     *)
(* any gap 1..T-1 between signs of life, no bound on time. IndInv is an    *)
(* inductive invariant (Init => IndInv; IndInv /\ Next => IndInv') that    *)
(* implies LiveNeverExpired: the read deadline, refreshed before every     *)
(* read, never fires for a peer whose signs of life are less than T apart. *)
(***************************************************************************)
EXTENDS Integers

CONSTANT
  \* @type: Int;
  T

VARIABLES
  \* @type: Int;
  now,
  \* @type: Int;
  deadline,
  \* @type: Int;
  nextSign,
  \* @type: Bool;
  dead

CInit == T \in 2..1000000

Init == /\ now = 0 /\ deadline = T /\ dead = FALSE
        /\ \E g \in 1..(T - 1) : nextSign = g

Next ==
  /\ ~dead
  /\ now' = now + 1
  /\ IF now' = nextSign
     THEN /\ deadline' = now' + T /\ dead' = FALSE
          /\ \E g \in 1..(T - 1) : nextSign' = now' + g
     ELSE /\ dead' = (now' >= deadline)
          /\ UNCHANGED <<deadline, nextSign>>

IndInv == /\ ~dead /\ now >= 0 /\ now < nextSign /\ nextSign < deadline /\ deadline <= now + T

\* the same predicate as an initial condition (for the inductive step)
IndInit == now \in Int /\ deadline \in Int /\ nextSign \in Int /\ dead \in BOOLEAN /\ IndInv

LiveNeverExpired == ~dead
==========================================================================
