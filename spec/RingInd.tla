------------------------------ MODULE RingInd ------------------------------
(***************************************************************************)
(* The sequential ring of pkg/ringbuffer (open state) with N = 8 slots,   *)
(* for Apalache, without a bound on the number of operations: items are    *)
(* numbered in the order they are accepted (p accepted, q handed out so    *)
(* far). IndInv pins every slot: slot i holds item k iff k is one of the   *)
(* outstanding items q+1..p and (k-1) mod N = i, and is empty otherwise.   *)
(* Consequences checked as part of the invariant step (action guards):     *)
(* Pull hands out exactly item q+1 (FIFO, exactly once); Push is refused   *)
(* exactly when N items are outstanding.                                   *)
(***************************************************************************)
EXTENDS Integers

N == 8

VARIABLES
  \* @type: Int -> Int;
  buf,
  \* @type: Int;
  rd,
  \* @type: Int;
  wr,
  \* @type: Int;
  p,
  \* @type: Int;
  q,
  \* @type: Bool;
  ok

Slots == 0..(N - 1)

Init == /\ buf = [i \in Slots |-> 0] /\ rd = 0 /\ wr = 0 /\ p = 0 /\ q = 0 /\ ok = TRUE

\* Push of the next item (number p + 1), as the code does it: look at the slot under wr
Push ==
  IF buf[wr] # 0
  THEN /\ ok' = (p - q = N)                      \* refused: only when the ring is full
       /\ UNCHANGED <<buf, rd, wr, p, q>>
  ELSE /\ buf' = [buf EXCEPT ![wr] = p + 1]
       /\ wr' = (wr + 1) % N
       /\ p' = p + 1
       /\ ok' = (p - q < N)                      \* accepted: only when there is room
       /\ UNCHANGED <<rd, q>>

\* Pull when something is there: the slot under rd
Pull ==
  /\ buf[rd] # 0
  /\ ok' = (buf[rd] = q + 1)                     \* the oldest outstanding item, nothing else
  /\ buf' = [buf EXCEPT ![rd] = 0]
  /\ rd' = (rd + 1) % N
  /\ q' = q + 1
  /\ UNCHANGED <<wr, p>>

\* Pull when the slot under rd is empty: it waits; legitimate only when nothing is outstanding
PullWait ==
  /\ buf[rd] = 0
  /\ ok' = (p = q)
  /\ UNCHANGED <<buf, rd, wr, p, q>>

Next == Push \/ Pull \/ PullWait

IndInv ==
  /\ ok
  /\ rd \in Slots /\ wr \in Slots
  /\ q >= 0 /\ q <= p /\ p <= q + N
  /\ wr = p % N /\ rd = q % N
  /\ DOMAIN buf = Slots
  /\ \A i \in Slots :
       LET k == q + 1 + ((i - rd + N) % N)       \* the outstanding item that would live in slot i
       IN buf[i] = IF k <= p THEN k ELSE 0

IndInit ==
  /\ buf \in [Slots -> Int] /\ rd \in Int /\ wr \in Int /\ p \in Int /\ q \in Int /\ ok \in BOOLEAN
  /\ IndInv
=============================================================================
