SPECIFICATION Spec
CONSTANTS
  NFields = 8
  NVariants = 4
CHECK_DEADLOCK FALSE
