SPECIFICATION Spec
CONSTANTS
  NFields = 8
  NVariants = 8
CHECK_DEADLOCK FALSE
