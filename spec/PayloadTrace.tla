---------------------------- MODULE PayloadTrace ----------------------------
(* Trace validation of real encoder/decoder executions against PayloadProp. *)
EXTENDS TraceIO, PayloadProp

ResetAct == PReset([limit |-> Ev.limit, seq0 |-> Ev.seq0, pt |-> Ev.pt, mrule |-> Ev.mrule,
                    fmode |-> Ev.fmode, cap |-> Ev.cap])

StepAct ==
  \/ Is("pkt")     /\ EncPacket(Ev.f, Ev.i, Ev.n, Ev.size, Ev.seq, Ev.marker, Ev.pt, Ev.ssrcOk)
  \/ Is("encdone") /\ EncDone(Ev.f, Ev.intact)
  \/ Is("dec")     /\ Dec(Ev.f, Ev.i, Ev.n, Ev.res, Ev.eq, Ev.units, Ev.total)
  \/ Is("feed")    /\ Feed(Ev.f, Ev.i, Ev.n, Ev.res, Ev.rf, Ev.intact)
  \/ Is("feedend") /\ FeedEnd
  \/ Is("hostile") /\ Hostile(Ev.res, Ev.retained, Ev.out, Ev.stable, Ev.panic, Ev.psize)
  \/ Is("end")     /\ UNCHANGED pvars

Next == TraceNext(ResetAct, StepAct, UNCHANGED pvars)
Init == TraceInit /\ PInit
Spec == Init /\ [][Next]_<<tvars, pvars>>
=============================================================================
