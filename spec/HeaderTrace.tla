---------------------------- MODULE HeaderTrace ----------------------------
EXTENDS TraceIO, HeaderProp
ResetAct == HReset
StepAct ==
  \/ Is("rt")    /\ RoundTrip(Ev.h, Ev.eq, Ev.pure, Ev.det, Ev.panic)
  \/ Is("parse") /\ Parse(Ev.h, Ev.det, Ev.panic)
  \/ Is("end")   /\ UNCHANGED hvars
Next == TraceNext(ResetAct, StepAct, UNCHANGED hvars)
Init == TraceInit /\ HInit
Spec == Init /\ [][Next]_<<tvars, hvars>>
=============================================================================
