---------------------------- MODULE LifecycleProp ----------------------------
(***************************************************************************)
(* Level A (property) specification for C13: Close is complete; lifecycle  *)
(* callbacks are balanced and ordered.                                     *)
(*   ConnOpen(c) / ConnClose(c), SessOpen(s) / SessClose(s)                *)
(*       notifications (SessClose is logged when the close handler         *)
(*       RETURNS: the notification "has been delivered")                   *)
(*   Cb(s)          a packet or request callback for session s is ENTERED  *)
(*   CloseCall(o) / CloseRet(o, ms)   Close of object o ("server",         *)
(*       "stream", "client") is called / has returned after ms             *)
(*   Census(goroutines, ports)   after every object of the scenario was    *)
(*       closed: library goroutines still alive (after a grace period) and *)
(*       listening ports that cannot be bound again                        *)
(***************************************************************************)
EXTENDS Naturals, FiniteSets

CONSTANT MaxCloseMs          \* bound on Close latency

VARIABLES connsOpen, connsClosed, sessOpen, sessClosed, closing, serverClosed
lvars == <<connsOpen, connsClosed, sessOpen, sessClosed, closing, serverClosed>>

LInit == connsOpen = {} /\ connsClosed = {} /\ sessOpen = {} /\ sessClosed = {} /\ closing = {}
         /\ serverClosed = FALSE
LReset == connsOpen' = {} /\ connsClosed' = {} /\ sessOpen' = {} /\ sessClosed' = {} /\ closing' = {}
          /\ serverClosed' = FALSE

ConnOpen(c) == c \notin connsOpen /\ connsOpen' = connsOpen \cup {c}
               /\ UNCHANGED <<connsClosed, sessOpen, sessClosed, closing, serverClosed>>
\* exactly one close per open, never a close without an open
ConnClose(c) == c \in connsOpen /\ c \notin connsClosed /\ connsClosed' = connsClosed \cup {c}
                /\ UNCHANGED <<connsOpen, sessOpen, sessClosed, closing, serverClosed>>
SessOpen(s) == s \notin sessOpen /\ sessOpen' = sessOpen \cup {s}
               /\ UNCHANGED <<connsOpen, connsClosed, sessClosed, closing, serverClosed>>
SessClose(s) == s \in sessOpen /\ s \notin sessClosed /\ sessClosed' = sessClosed \cup {s}
                /\ UNCHANGED <<connsOpen, connsClosed, sessOpen, closing, serverClosed>>

\* no callback for a session whose close notification has been delivered
Cb(s) == s \in sessOpen /\ s \notin sessClosed /\ UNCHANGED lvars

CloseCall(o) == closing' = closing \cup {o}
                /\ UNCHANGED <<connsOpen, connsClosed, sessOpen, sessClosed, serverClosed>>

\* Close returns in bounded time; when the server's Close has returned every connection
\* and session it opened has been closed (with its notification)
CloseRet(o, ms) ==
  /\ o \in closing /\ ms <= MaxCloseMs
  /\ (o = "server") => (connsClosed = connsOpen /\ sessClosed = sessOpen)
  /\ serverClosed' = (serverClosed \/ o = "server")
  /\ closing' = closing \ {o}
  /\ UNCHANGED <<connsOpen, connsClosed, sessOpen, sessClosed>>

\* nothing created by the closed objects remains
Census(goroutines, ports) == goroutines = 0 /\ ports = 0 /\ closing = {} /\ UNCHANGED lvars

End == connsClosed = connsOpen /\ sessClosed = sessOpen /\ UNCHANGED lvars
=============================================================================
