SPECIFICATION Spec
CONSTANT SlackMs = 900
CHECK_DEADLOCK FALSE
INVARIANT TraceConsumed
POSTCONDITION TraceComplete
