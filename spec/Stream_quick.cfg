SPECIFICATION Spec
CONSTANTS
  Readers = {1, 2}
  MaxPk = 3
  Cap = 2
INVARIANT DrainOK
INVARIANT BarrierOK
INVARIANT QueueOK
INVARIANT StreamingImpliesActive
CHECK_DEADLOCK FALSE
