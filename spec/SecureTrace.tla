----------------------------- MODULE SecureTrace -----------------------------
EXTENDS TraceIO, SecureProp
ResetAct == SecReset
StepAct ==
  \/ Is("admit")    /\ Admit(Ev.tls, Ev.profile, Ev.proto, Ev.ok)
  \/ Is("redirect") /\ Redirect(Ev.from, Ev.to, Ev.followed)
  \/ Is("sent")     /\ Sent(Ev.id)
  \/ Is("wire")     /\ Wire(Ev.clear)
  \/ Is("tamper")   /\ Tamper(Ev.id)
  \/ Is("dlv")      /\ Dlv(Ev.id, Ev.same)
  \/ Is("barrier")  /\ Barrier(Ev.reliable)
  \/ Is("end")      /\ UNCHANGED secvars
Next == TraceNext(ResetAct, StepAct, UNCHANGED secvars)
Init == TraceInit /\ SecInit
Spec == Init /\ [][Next]_<<tvars, secvars>>
=============================================================================
