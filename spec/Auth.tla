-------------------------------- MODULE Auth --------------------------------
(***************************************************************************)
(* Level B (implementation-shaped) symbolic model of pkg/auth and the      *)
(* Authorization header: the hash is an injective tuple, so "equal         *)
(* response" means "computed from equal inputs".                           *)
(*                                                                         *)
(*   server: WWW-Authenticate carries one challenge per enabled method, in *)
(*           the configured order (GenerateWWWAuthenticate)                *)
(*   client: Sender.Initialize keeps a challenge if none is kept yet, or   *)
(*           it is SHA-256, or the kept one is Basic                       *)
(*   client: AddAuthorization - Basic: (user, pass); Digest: username,     *)
(*           realm, nonce, uri, algorithm, response = H(user, realm, pass, *)
(*           nonce, method, uri) under that algorithm                      *)
(*   server: Verify - Digest accepted as a scheme iff (MD5 enabled and the *)
(*           label is MD5/absent) or (SHA-256 enabled and the label is     *)
(*           SHA-256); then nonce, realm, user, URL (exact, or the SETUP   *)
(*           base-URL rule) and the response recomputed with the labelled  *)
(*           algorithm must match; Basic: enabled, user, pass              *)
(* TLC enumerates every challenge order x every single perturbation and    *)
(* checks that the model's decision is the one AuthProp demands (B => A);  *)
(* the cases are exported and replayed on the real Sender / Verify.        *)
(***************************************************************************)
EXTENDS AuthProp, Sequences, FiniteSets, TLC, Json

VARIABLES case, beh
bvars == <<case, beh>>

\* all non-empty sequences of distinct schemes
Orders == UNION {{s \in [1..n -> Schemes] : \A i, j \in 1..n : i # j => s[i] # s[j]} : n \in 1..3}

\* Sender.Initialize
RECURSIVE Choose(_, _)
Choose(kept, rest) ==
  IF rest = <<>> THEN kept
  ELSE LET c == Head(rest) IN
       Choose(IF kept = "-" \/ c = "sha256" \/ kept = "basic" THEN c ELSE kept, Tail(rest))
Chosen(order) == Choose("-", order)

\* the right inputs
Right == [user |-> "u", pass |-> "p", realm |-> "r", nonce |-> "n", method |-> "DESCRIBE",
          url |-> "track", alg |-> "-"]

\* what the client computes from, under a perturbation (its view of the world)
ClientView(sent, pert) ==
  LET a == IF sent = "basic" THEN "-" ELSE sent IN
  [user |-> IF pert = "user" THEN "u2" ELSE "u",
   pass |-> IF pert = "pass" THEN "p2" ELSE "p",
   realm |-> IF pert = "realm" THEN "r2" ELSE "r",
   nonce |-> IF pert = "nonce" THEN "n2" ELSE "n",
   method |-> IF pert = "method" THEN "OPTIONS" ELSE IF pert \in {"setup_base", "setup_other"} THEN "SETUP" ELSE "DESCRIBE",
   url |-> IF pert \in {"url", "setup_other"} THEN "other" ELSE IF pert \in {"setup_base", "base_nonsetup"} THEN "base" ELSE "track",
   \* algorithm used to compute vs algorithm written in the header
   algUsed |-> a,
   algLabel |-> IF pert = "alg" THEN (IF a = "md5" THEN "sha256" ELSE "md5")
                ELSE IF pert = "noalg" /\ a # "-" THEN "implicit" ELSE a]

\* the header the client sends
Header(sent, pert) ==
  LET v == ClientView(sent, pert) IN
  IF sent = "basic" THEN [scheme |-> "basic", user |-> v.user, pass |-> v.pass]
  ELSE [scheme |-> "digest", user |-> v.user, realm |-> v.realm, nonce |-> v.nonce, uri |-> v.url,
        alg |-> v.algLabel,
        response |-> <<v.algUsed, v.user, v.realm, v.pass, v.nonce, v.method, v.url>>]

\* the request as the server sees it: method and URL are the real ones
ReqMethod(pert) == IF pert \in {"setup_base", "setup_other"} THEN "SETUP" ELSE "DESCRIBE"

UrlMatches(received, isSetup) == received = "track" \/ (isSetup /\ received = "base")

\* auth.Verify
ServerVerify(enabled, h, reqMethod) ==
  IF h.scheme = "digest" /\ (("md5" \in enabled /\ h.alg \in {"md5", "implicit"}) \/ ("sha256" \in enabled /\ h.alg = "sha256"))
  THEN /\ h.nonce = "n" /\ h.realm = "r" /\ h.user = "u"
       /\ UrlMatches(h.uri, reqMethod = "SETUP")
       \* an authorization without algorithm parameter is an MD5 one
       /\ h.response = <<IF h.alg = "implicit" THEN "md5" ELSE h.alg, "u", "r", "p", "n", reqMethod, h.uri>>
  ELSE IF h.scheme = "basic" /\ "basic" \in enabled
  THEN h.user = "u" /\ h.pass = "p"
  ELSE FALSE

Range(s) == {s[i] : i \in DOMAIN s}

\* the scheme the client uses: normally the one Sender chooses; to exercise "scheme not
\* enabled" the client is also handed a forged challenge for every other scheme
Cases == {[order |-> o, sent |-> s, pert |-> p] : o \in Orders, s \in Schemes, p \in Perts}

Decision(c) ==
  LET h == Header(c.sent, c.pert)
      \* a "method" perturbation means: computed for another method than the request's
      rm == ReqMethod(c.pert)
  IN ServerVerify(Range(c.order), h, rm)

Init == AInitAuth /\ case = [order |-> <<>>, sent |-> "-", pert |-> "-"] /\ beh = ""

Pick(c) ==
  /\ nverify = 0                       \* one case per behaviour
  /\ case' = c
  /\ Verify(c.sent, c.pert, c.sent \in Range(c.order), Decision(c))      \* Level A step
  /\ beh' = ToJson([order |-> c.order, sent |-> c.sent, pert |-> c.pert,
                    chosen |-> Chosen(c.order), accept |-> Decision(c)])

Next == \E c \in Cases : Pick(c)
Spec == Init /\ [][Next]_<<authvars, bvars>>

\* B => A: the model's decision is the demanded one in every case
BImpliesA == \A c \in Cases : Decision(c) = MustAccept(c.sent, c.pert, c.sent \in Range(c.order))

\* the client's own choice is always an enabled scheme, and the strongest offered
ChoiceOK == \A o \in Orders :
              /\ Chosen(o) \in Range(o)
              /\ ("sha256" \in Range(o)) => Chosen(o) = "sha256"
              /\ ("sha256" \notin Range(o) /\ "md5" \in Range(o)) => Chosen(o) = "md5"
=============================================================================
