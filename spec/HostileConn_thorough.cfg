SPECIFICATION Spec
CONSTANTS
  Prefixes <- AllPrefixes
  Classes <- AllClasses
  MaxSteps = 2
INVARIANT OutcomeOK
INVARIANT NoOrphan
CHECK_DEADLOCK FALSE
