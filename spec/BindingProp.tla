----------------------------- MODULE BindingProp -----------------------------
(***************************************************************************)
(* Level A (property) specification for C19: media and control are bound   *)
(* to the negotiated peer.                                                 *)
(*   Dgram(side, src, anyPort, firstSeen, delivered, statsChanged)         *)
(*       a perfectly valid RTP / RTCP datagram for the session was sent to *)
(*       the session's UDP port on `side` ("server" / "client") from       *)
(*       source class src: "peer" (negotiated address and port),           *)
(*       "port" (right address, other port), "ip" (another address,        *)
(*       negotiated port number), "both"; anyPort = the any-port option is *)
(*       on (client only); firstSeen = a packet from the real peer had     *)
(*       already been received; delivered = the packet callback ran;       *)
(*       statsChanged = the session's received-packet statistics moved     *)
(*   KeepAlive(src, expired)  only datagrams from src were sent for longer *)
(*       than the session timeout: did the session expire?                 *)
(*   Steal(how, state, status, stateAfter, sameState)  a request carrying  *)
(*       the session's id arrived from another address ("ip") or, while    *)
(*       the session streams over an interleaved connection, from another  *)
(*       connection ("conn")                                               *)
(***************************************************************************)
EXTENDS Naturals

VARIABLES nd, ns
bndvars == <<nd, ns>>
BInit == nd = 0 /\ ns = 0
BReset == nd' = 0 /\ ns' = 0

Dgram(side, src, anyPort, firstSeen, delivered, statsChanged) ==
  /\ CASE src = "peer" -> delivered                       \* the negotiated peer is heard
       [] src \in {"ip", "both"} -> ~delivered /\ ~statsChanged      \* another address: ignored
       [] src = "port" ->
            \* another port: ignored, unless the any-port option is on and this is the first
            \* packet seen (the port is then learned from it)
            IF anyPort /\ ~firstSeen THEN TRUE ELSE (~delivered /\ ~statsChanged)
       [] OTHER -> FALSE
  /\ nd' = nd + 1 /\ UNCHANGED ns

\* traffic from elsewhere does not keep a session alive; traffic from the peer does
KeepAlive(src, expired) ==
  /\ (src = "peer") => ~expired
  /\ (src \in {"ip", "port", "both"}) => expired
  /\ UNCHANGED bndvars

\* a session can be driven only from the address that created it and, while it streams over
\* an interleaved connection, only from that connection
Steal(how, status, sameState) ==
  /\ status >= 400 /\ sameState
  /\ ns' = ns + 1 /\ UNCHANGED nd
=============================================================================
