------------------------------ MODULE Receiver ------------------------------
(***************************************************************************)
(* Level B (implementation-shaped) model of rtpreceiver.Receiver.reorder   *)
(* and the accounting in ProcessPacket2, case by case as in the Go code:   *)
(*   relPos = int16(seq - last - 1)                                        *)
(*   relPos < 0        : negativeCount++; > len(buffer) => clear, deliver  *)
(*   relPos >= len     : flush the whole buffer, then the packet           *)
(*   relPos # 0        : store at (absPos + relPos) & mask unless occupied *)
(*   relPos = 0        : deliver the packet and the contiguous run         *)
(* The module carries Level A's variables; TLC checks, in every reachable  *)
(* state and for every possible next arrival, that what the model does is  *)
(* a step Level A accepts (B => A), and exports arrival histories as       *)
(* model-based tests for the real Receiver (module ReceiverMBT).           *)
(***************************************************************************)
EXTENDS ReceiverProp, TLC

CONSTANTS Sizes,       \* buffer sizes explored
          Modes,       \* subset of {TRUE, FALSE}: unreliable / reliable
          Starts,      \* initial sequence numbers
          MaxLen,      \* history length bound
          Window       \* 0: any sequence number may arrive next (exhaustive, small M);
                       \* w > 0: arrivals within last-w .. last+S+2, plus a far-ahead
                       \* jump and a restart-like jump (model-based tests, M = 65536)

None == M              \* empty buffer slot

VARIABLES buf, absPos, negCount, cyclesB, n

bvars == <<buf, absPos, negCount, cyclesB, n>>
allvars == <<avars, bvars>>

Mask(i) == i % S

\* int16 view of (seq - last - 1) mod M
RelPos(seq) == LET d == (seq + 2 * M - last - 1) % M IN IF d >= Half THEN d - M ELSE d

\* positions absPos, absPos+1, ... in ring order
Order == [i \in 0..(S - 1) |-> Mask(absPos + i)]
Buffered == SelectSeq([i \in 1..S |-> buf[Order[i - 1]]], LAMBDA x : x # None)

RECURSIVE RunLen(_)
RunLen(k) == IF k < S /\ buf[Mask(absPos + k)] # None THEN RunLen(k + 1) ELSE k

\* result of reorder(seq): [out, lost, buf, absPos, neg]
Reorder(seq) ==
  LET rel == RelPos(seq) IN
  IF rel < 0 THEN
    IF negCount + 1 > S
    THEN [out |-> <<seq>>, lost |-> 0, buf |-> [i \in 0..(S - 1) |-> None],
          absPos |-> absPos, neg |-> 0]
    ELSE [out |-> <<>>, lost |-> 0, buf |-> buf, absPos |-> absPos, neg |-> negCount + 1]
  ELSE IF rel >= S THEN
    [out |-> Buffered \o <<seq>>, lost |-> rel - Len(Buffered),
     buf |-> [i \in 0..(S - 1) |-> None], absPos |-> absPos, neg |-> 0]
  ELSE IF rel # 0 THEN
    LET p == Mask(absPos + rel) IN
    IF buf[p] # None
    THEN [out |-> <<>>, lost |-> 0, buf |-> buf, absPos |-> absPos, neg |-> 0]
    ELSE [out |-> <<>>, lost |-> 0, buf |-> [buf EXCEPT ![p] = seq], absPos |-> absPos, neg |-> 0]
  ELSE
    LET k == RunLen(1)      \* packets delivered: this one + (k-1) buffered
        run == [i \in 1..(k - 1) |-> buf[Mask(absPos + i)]]
    IN [out |-> <<seq>> \o run, lost |-> 0,
        buf |-> [i \in 0..(S - 1) |-> IF \E j \in 1..(k - 1) : i = Mask(absPos + j) THEN None ELSE buf[i]],
        absPos |-> Mask(absPos + k), neg |-> 0]

\* ProcessPacket2
Process(seq) ==
  IF ~first THEN [out |-> <<seq>>, lost |-> 0, buf |-> buf, absPos |-> absPos, neg |-> negCount]
  ELSE IF unrel THEN Reorder(seq)
  ELSE [out |-> <<seq>>, lost |-> (seq + 2 * M - last - 1) % M, buf |-> buf, absPos |-> absPos,
        neg |-> negCount]

\* the cycle counter as the code computes it: diff < -0x0FFF (scaled to M)
RECURSIVE CyclesAfter(_, _, _)
CyclesAfter(c, from, out) ==
  IF out = <<>> THEN c
  ELSE CyclesAfter(IF Head(out) - from < 0 - (M \div 16) + 1 THEN c + 1 ELSE c, Head(out), Tail(out))

Init ==
  /\ \E s \in Sizes, u \in Modes : AInit(s, u)
  /\ buf = [i \in 0..(S - 1) |-> None] /\ absPos = 0 /\ negCount = 0 /\ cyclesB = 0 /\ n = 0

Candidates ==
  IF ~first THEN Starts
  ELSE IF Window = 0 THEN 0..(M - 1)
  ELSE {(last + M + d) % M : d \in (0 - Window)..(S + 2)} \cup {(last + 1000) % M, (last + Half + 5) % M}

Arrive(seq) ==
  /\ n < MaxLen
  /\ LET r == Process(seq) IN
     /\ Proc(seq, r.out, r.lost)              \* Level A step (its guard is checked by BImpliesA)
     /\ buf' = r.buf /\ absPos' = r.absPos /\ negCount' = r.neg
     /\ cyclesB' = IF first THEN CyclesAfter(cyclesB, last, r.out) ELSE cyclesB
  /\ n' = n + 1

Next == \E seq \in Candidates : Arrive(seq)
Spec == Init /\ [][Next]_allvars

\* B => A: whatever arrives next, the model's reaction is a step Level A accepts
BImpliesA ==
  n < MaxLen =>
    \A seq \in Candidates :
      LET r == Process(seq) IN ENABLED Proc(seq, r.out, r.lost)

\* the model's own bookkeeping agrees with Level A's ghost state
Agreement ==
  /\ negCount = negRun
  /\ first => {buf[i] : i \in 0..(S - 1)} \ {None} = pending
  /\ cyclesB \in cyc..(cyc + fuzz)
=============================================================================
