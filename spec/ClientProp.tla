------------------------------ MODULE ClientProp ------------------------------
(***************************************************************************)
(* Level A (property) specification for C12: the client survives hostile   *)
(* servers.  One trace = one real gortsplib.Client driven through          *)
(* Start / Describe / SetupAll / Play (or Announce / Record) / Pause /     *)
(* Close against a scripted server that deviates from the protocol.        *)
(*   Call(op, outcome, ms, cdead)   an API call returned after ms with      *)
(*        outcome "ok" or "err"; cdead = the client's run loop had already  *)
(*        terminated (Wait() had returned) when the call was made          *)
(*   Died                          Wait() returned: the client has failed  *)
(*   CloseRet(ms)                  Close returned                          *)
(*   Census(goroutines, sockets)   after Close                             *)
(* Hang(op) and Crash are events no action accepts.                        *)
(***************************************************************************)
EXTENDS Naturals

CONSTANTS MaxCallMs,       \* ReadTimeout(s) a call may legitimately consume, plus slack
          MaxDeadMs        \* a call on a cdead client fails fast

VARIABLES cdead, closed, ncalls
cvars == <<cdead, closed, ncalls>>
CInit == cdead = FALSE /\ closed = FALSE /\ ncalls = 0
CReset == cdead' = FALSE /\ closed' = FALSE /\ ncalls' = 0

\* every call returns a result or an error within its timeouts;
\* after a failure the client reports that failure instead of blocking
Call(op, outcome, ms, wasDead) ==
  /\ ~closed
  /\ outcome \in {"ok", "err"}
  /\ ms <= MaxCallMs
  /\ wasDead => (outcome = "err" /\ ms <= MaxDeadMs)
  /\ ncalls' = ncalls + 1
  /\ UNCHANGED <<cdead, closed>>

Died == cdead' = TRUE /\ UNCHANGED <<closed, ncalls>>

\* Close always returns
CloseRet(ms) == ~closed /\ ms <= MaxCallMs /\ closed' = TRUE /\ UNCHANGED <<cdead, ncalls>>

\* and leaves no goroutine or socket behind
Census(goroutines, sockets) == closed /\ goroutines = 0 /\ sockets = 0 /\ UNCHANGED cvars
=============================================================================
