----------------------------- MODULE ClientTrace -----------------------------
EXTENDS TraceIO, ClientProp
ResetAct == CReset
StepAct ==
  \/ Is("call")      /\ Call(Ev.op, Ev.outcome, Ev.ms, Ev.dead)
  \/ Is("died")      /\ Died
  \/ Is("close_ret") /\ CloseRet(Ev.ms)
  \/ Is("census")    /\ Census(Ev.goroutines, Ev.sockets)
  \/ Is("end")       /\ closed /\ UNCHANGED cvars
Next == TraceNext(ResetAct, StepAct, UNCHANGED cvars)
Init == TraceInit /\ CInit
Spec == Init /\ [][Next]_<<tvars, cvars>>
=============================================================================
