----------------------------- MODULE ClientModel -----------------------------
(***************************************************************************)
(* Level B model for C12: the client's request/await/reply loop against a  *)
(* server that deviates at one step.  The client walks                     *)
(*   OPTIONS, DESCRIBE, SETUP (per media), PLAY, PAUSE, TEARDOWN           *)
(* (or OPTIONS, ANNOUNCE, SETUP..., RECORD, TEARDOWN when publishing).     *)
(* For each request the scripted server behaves "ok" or in one hostile way.*)
(* The model abstracts a call as: send, then wait for (a matching response *)
(* | the read timeout | the connection's end); it checks that under EVERY  *)
(* server behaviour each call terminates with ok or err (no state in which *)
(* the client waits for something that cannot come), that after the        *)
(* connection ended every later call fails at once, and exports every      *)
(* (configuration, step, behaviour) script for replay on the real client.  *)
(***************************************************************************)
EXTENDS Naturals, Sequences, TLC, Json

CONSTANTS Behaviours, Configs

VARIABLES cfg, script, pos, connUp, waiting, result, beh
vars == <<cfg, script, pos, connUp, waiting, result, beh>>

PlaySteps == <<"OPTIONS", "DESCRIBE", "SETUP", "SETUP", "PLAY", "PAUSE", "TEARDOWN">>
RecordSteps == <<"OPTIONS", "ANNOUNCE", "SETUP", "SETUP", "RECORD", "TEARDOWN">>
Steps(c) == IF c.mode = "record" THEN RecordSteps ELSE PlaySteps

\* what the awaited call can observe under a behaviour: "resp_ok", "resp_bad", "timeout", "eof"
Observes(b) ==
  CASE b = "ok" -> {"resp_ok"}
    [] b \in {"status_404", "status_500", "redirect", "redirect_downgrade", "redirect_loop", "malformed", "bad_sdp",
              "bad_control", "bad_transport", "bad_interleaved", "bad_ssrc", "wrong_session",
              "no_session", "huge_header"} -> {"resp_bad"}
    [] b \in {"wrong_cseq", "no_cseq", "silence", "inject_request", "inject_frame", "chatty"} -> {"timeout", "resp_ok"}
    [] b \in {"dup", "delay", "stall_reads", "trail_frames"} -> {"resp_ok"}
         \* (stall_reads: answered, then nothing is read any more; trail_frames: answered,
         \*  interleaved frames follow the response at once)
    [] b \in {"close", "close_mid_response", "garbage_then_close"} -> {"eof"}
    [] OTHER -> {"timeout"}

Init ==
  /\ cfg \in Configs
  /\ script = <<>> /\ pos = 1 /\ connUp = TRUE /\ waiting = FALSE /\ result = "-" /\ beh = ""

\* choose the behaviour for the next step: at most one deviation per script
Plan ==
  /\ ~waiting /\ pos <= Len(Steps(cfg)) /\ Len(script) < pos
  /\ \E b \in Behaviours :
       /\ (b # "ok") => (\A i \in 1..Len(script) : script[i] = "ok")
       /\ script' = Append(script, b)
  /\ UNCHANGED <<cfg, pos, connUp, waiting, result, beh>>

SendReq ==
  /\ ~waiting /\ Len(script) = pos /\ pos <= Len(Steps(cfg))
  /\ IF connUp THEN waiting' = TRUE /\ result' = "-"
     ELSE waiting' = FALSE /\ result' = "err"              \* dead connection: fail at once
  /\ UNCHANGED <<cfg, script, pos, connUp, beh>>

Await ==
  /\ waiting
  /\ \E o \in Observes(script[pos]) :
       /\ result' = IF o = "resp_ok" THEN "ok" ELSE "err"
       /\ connUp' = IF o \in {"eof", "timeout"} THEN FALSE ELSE connUp
  /\ waiting' = FALSE
  /\ UNCHANGED <<cfg, script, pos, beh>>

Advance ==
  /\ ~waiting /\ result # "-" /\ Len(script) = pos
  /\ pos' = pos + 1 /\ result' = "-"
  /\ beh' = IF pos' > Len(Steps(cfg)) \/ result = "err"
            THEN ToJson([cfg |-> cfg, steps |-> SubSeq(Steps(cfg), 1, pos), script |-> script]) ELSE ""
  /\ UNCHANGED <<cfg, script, connUp, waiting>>

Next == Plan \/ SendReq \/ Await \/ Advance
Spec == Init /\ [][Next]_vars /\ WF_vars(Await) /\ WF_vars(SendReq) /\ WF_vars(Advance) /\ WF_vars(Plan)

\* every call terminates: a waiting client always has something it can observe
NoStuckCall == waiting => Observes(script[pos]) # {}
CallsReturn == waiting ~> ~waiting
\* once the connection is gone, a later call fails without waiting
FailFast == (~connUp /\ ~waiting /\ result = "ok") => FALSE

AllBehaviours == {"ok", "status_404", "status_500", "redirect", "redirect_downgrade", "redirect_loop", "malformed", "bad_sdp",
                  "bad_control", "bad_transport", "bad_interleaved", "bad_ssrc", "wrong_session", "no_session",
                  "huge_header", "wrong_cseq", "no_cseq", "silence", "inject_request", "inject_frame", "chatty",
                  "dup", "delay", "close", "close_mid_response", "garbage_then_close", "stall_reads",
                  "trail_frames"}
AllConfigs == {[mode |-> m, proto |-> p, creds |-> c] :
                 m \in {"play", "record"}, p \in {"tcp", "udp", "auto"}, c \in {TRUE, FALSE}}
=============================================================================
