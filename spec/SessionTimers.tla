---------------------------- MODULE SessionTimers ----------------------------
(***************************************************************************)
(* Level B discrete-time model of the session timeout logic                *)
(* (ServerSession.runInner, udpCheckStreamTimer; Session header timeout;   *)
(* client keep-alive period), in ticks of 100 ms.                          *)
(*   server: every Period ticks: PLAY over UDP expires when both the last  *)
(*           request and the last UDP packet are at least Idle old (the    *)
(*           UDP stamp has ONE-SECOND resolution: it is rounded down to a  *)
(*           multiple of 10 ticks); RECORD over UDP when the last packet   *)
(*           is at least ReadT old                                         *)
(*   server advertises  max(Idle_s - 5, 1)  seconds in the Session header  *)
(*   client sends a keep-alive every  max(advertised - 5, 1)  seconds,     *)
(*           each arriving up to Jitter ticks late                         *)
(* TLC checks, for every phase between the timers, that a live peer is     *)
(* never expired and that a silent one is closed within                    *)
(* Idle + Period + 10 ticks.  With Idle below 2 s the first property FAILS *)
(* (the advertised timeout is not below the applied one): kept as a        *)
(* documented configuration (SessionTimers_small.cfg).                     *)
(***************************************************************************)
EXTENDS Naturals, Integers

CONSTANTS Idle, Period, Jitter, Horizon, Live

VARIABLES now, lastReq, nextKA, nextCheck, expired, silentSince
vars == <<now, lastReq, nextKA, nextCheck, expired, silentSince>>

Max(a, b) == IF a > b THEN a ELSE b
IdleS == Idle \div 10
Adv == Max(IdleS - 5, 1)                 \* seconds
KA == Max(Adv - 5, 1) * 10               \* ticks between keep-alives

Init == /\ now = 0 /\ lastReq = 0 /\ expired = FALSE /\ silentSince = 0
        /\ nextKA \in 1..(KA + Jitter)   \* arrival time of the first keep-alive: any phase, any lateness
        /\ nextCheck \in 1..Period       \* any phase of the server's timer

Tick ==
  /\ now < Horizon /\ ~expired
  /\ now' = now + 1
  \* nextKA is when the next keep-alive ARRIVES; the one after it was sent KA ticks after
  \* this one was sent and arrives up to Jitter ticks late
  /\ IF Live /\ now' = nextKA
     THEN /\ lastReq' = now'
          /\ \E d \in (0 - Jitter)..Jitter : nextKA' = nextKA + KA + d /\ nextKA' > now'
     ELSE UNCHANGED <<lastReq, nextKA>>
  /\ IF now' = nextCheck
     THEN /\ nextCheck' = nextCheck + Period
          /\ expired' = (now' - lastReq >= Idle)
     ELSE UNCHANGED <<nextCheck, expired>>
  /\ UNCHANGED silentSince

Next == Tick
Spec == Init /\ [][Next]_vars

\* a peer that follows the protocol is never expired
LiveNeverExpired == Live => ~expired
\* a silent peer is closed within timeout + one check period
SilentClosed == (~Live /\ now >= Idle + Period + 1) => expired
=============================================================================
