SPECIFICATION Spec
CONSTANTS
  MaxWrite = 4
  MaxWrites = 2
  MaxChunk = 9
INVARIANT NoError
INVARIANT PrefixOK
INVARIANT Complete
CHECK_DEADLOCK FALSE
