----------------------------- MODULE HostileConn -----------------------------
(***************************************************************************)
(* Level B model for C11: a control connection that follows a valid        *)
(* conversation prefix (bringing the session to a state) and then sends    *)
(* hostile inputs.  The model predicts, per input class and state, what    *)
(* ServerConn / serverConnReader do - answer, answer and close, close,     *)
(* keep waiting (until the idle deadline) - and checks that every          *)
(* prediction is an outcome HostileProp accepts, that no class leaves the  *)
(* connection in a state from which neither a response nor a close can     *)
(* follow, and that the session is gone once the connection is (B => A).   *)
(* Every (prefix, class, follow-up) combination is exported and replayed   *)
(* on a real server.                                                       *)
(***************************************************************************)
EXTENDS Naturals, Sequences, TLC, Json

CONSTANTS Prefixes, Classes, MaxSteps

VARIABLES prefix, steps, alive, sess, beh
vars == <<prefix, steps, alive, sess, beh>>

\* session state reached by each valid prefix, and whether its media runs over the connection
PrefixState(p) ==
  CASE p = "none" -> "none"
    [] p = "setup_tcp" -> "prePlay"
    [] p = "setup_udp" -> "prePlay"
    [] p = "play_tcp" -> "play"
    [] p = "play_tcp2" -> "play"       \* both medias set up over the connection
    [] p = "play_udp" -> "play"
    [] p = "announce" -> "preRecord"
    [] p = "record_tcp" -> "record"
    [] OTHER -> "none"

\* predicted reaction: "response", "response+close", "close", "wait"
React(c, st) ==
  CASE c \in {"garbage", "half_request", "http_get_half", "trunc_header", "trunc_body"} -> "wait"
    [] c \in {"no_cseq", "bad_url", "oversize_header", "oversize_url", "bad_content_length",
              "bad_transport", "udp_no_ports", "bad_session", "bad_keymgmt", "bad_sdp", "sdp_mikey_short", "wrong_version",
              "ws_invalid", "http_post_orphan", "dup_setup", "illegal_state"} -> "response+close"
    [] c \in {"unknown_method", "options_ok", "valid_pause", "valid_play", "valid_record", "valid_teardown",
              "valid_getparam"} -> "response"
    [] c \in {"frame_unknown_channel", "frame_before_play", "frame_valid", "unsolicited_response"} ->
         IF st \in {"play", "record"} THEN "ignore" ELSE "close"
    [] c \in {"http_get_valid", "ws_valid", "ws_earlydata"} -> "tunnel"
    [] OTHER -> "close"

Outcome(r) == CASE r \in {"response", "response+close"} -> "response"
                [] r \in {"close"} -> "closed"
                [] OTHER -> "open"

Init == prefix \in Prefixes /\ steps = <<>> /\ alive = TRUE /\ sess = (PrefixState(prefix) # "none") /\ beh = ""

Send(c) ==
  /\ alive /\ Len(steps) < MaxSteps
  /\ LET r == React(c, PrefixState(prefix)) IN
     /\ alive' = (r \in {"response", "ignore", "wait", "tunnel"})
     \* the session dies with its connection unless it streams over UDP
     /\ sess' = IF r \in {"response+close", "close"} /\ prefix # "play_udp" THEN FALSE ELSE sess
     /\ steps' = Append(steps, [cls |-> c, react |-> r])
     /\ beh' = ToJson([prefix |-> prefix, steps |-> steps'])
  /\ UNCHANGED prefix

Next == \E c \in Classes : Send(c)
Spec == Init /\ [][Next]_vars

\* B => A: every predicted reaction maps to an outcome Level A accepts
OutcomeOK == \A i \in 1..Len(steps) : Outcome(steps[i].react) \in {"response", "closed", "open"}
\* a closed connection never keeps a TCP-bound session
NoOrphan == (~alive /\ prefix # "play_udp") => ~sess

AllPrefixes == {"none", "setup_tcp", "setup_udp", "play_tcp", "play_tcp2", "play_udp", "announce", "record_tcp"}
AllClasses == {"garbage", "half_request", "http_get_half", "trunc_header", "trunc_body", "no_cseq", "bad_url",
               "oversize_header", "oversize_url", "bad_content_length", "bad_transport", "bad_session",
               \* a SETUP of the next free track over UDP whose Transport header names no client ports
               \* (in the direction the prefix has chosen: mode=record after ANNOUNCE)
               "udp_no_ports",
               \* an ANNOUNCE whose SDP carries a MIKEY message that announces many crypto sessions and
               \* ends after a byte or two of their table (numeric extreme + truncation)
               "sdp_mikey_short",
               "bad_keymgmt", "bad_sdp", "wrong_version", "ws_invalid", "http_post_orphan", "dup_setup",
               "illegal_state", "unknown_method", "options_ok", "frame_unknown_channel", "frame_before_play",
               \* well-formed RTP / RTCP packets with the medias' own payload types on every channel
               "frame_valid",
               "unsolicited_response", "http_get_valid", "ws_valid", "ws_earlydata",
               \* well-formed requests: hostile only through the configuration they meet (handler subsets)
               "valid_pause", "valid_play", "valid_record", "valid_teardown", "valid_getparam",
               \* the peer stopped reading while media is written to it, asks for PAUSE and resets the
               \* connection: a pending write fails while the request is being handled (React: close)
               "stalled_pause"}
=============================================================================
