SPECIFICATION Spec
CONSTANTS
  L = 20
  AggHdr = 1
  PerUnit = 2
  FuHdr = 2
  Consumed = 1
  SingleLE = TRUE
  MaxUnits = 3
  FillMode = FALSE
  SmallSet <- NoSizes
  LaterBatch = FALSE
  SizeSet <- SizesEdge
INVARIANT SizeOK
INVARIANT Conserved
INVARIANT NonEmpty
CHECK_DEADLOCK FALSE
