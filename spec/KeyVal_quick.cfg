SPECIFICATION Spec
CONSTANTS
  MaxLen = 5
  Ordered = TRUE
  Alphabet <- FullAlphabet
INVARIANT Confluent
CHECK_DEADLOCK FALSE
