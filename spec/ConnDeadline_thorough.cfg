SPECIFICATION Spec
CONSTANTS
  T = 10
  Gaps = {2, 3, 4, 6, 7}
  MaxSigns = 4
INVARIANT LiveNeverExpired
CHECK_DEADLOCK FALSE
