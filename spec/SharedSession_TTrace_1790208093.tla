---- MODULE SharedSession_TTrace_1790208093 ----
EXTENDS SharedSession, Sequences, TLCExt, Toolbox, Naturals, TLC

_expression ==
    LET SharedSession_TEExpression == INSTANCE SharedSession_TEExpression
    IN SharedSession_TEExpression!expression
----

_trace ==
    LET SharedSession_TETrace == INSTANCE SharedSession_TETrace
    IN SharedSession_TETrace!trace
----

_inv ==
    ~(
        TLCGet("level") = Len(_TETrace)
        /\
        tcpConn = (0)
        /\
        st = ("preRecord")
        /\
        mclosed = (0)
        /\
        beh = ("{\"conns\":2,\"steps\":[{\"proto\":\"tcp\",\"c\":1,\"m\":\"ANNOUNCE\",\"st1\":\"preRecord\",\"ok\":true,\"mode\":\"play\",\"ends\":false,\"k\":\"req\",\"track\":0},{\"proto\":\"udp\",\"c\":1,\"m\":\"SETUP\",\"st1\":\"preRecord\",\"ok\":true,\"mode\":\"record\",\"ends\":false,\"k\":\"req\",\"track\":0},{\"proto\":\"udp\",\"c\":2,\"m\":\"SETUP\",\"st1\":\"preRecord\",\"ok\":false,\"mode\":\"record\",\"ends\":false,\"k\":\"req\",\"track\":0},{\"k\":\"close\",\"c\":1,\"m\":\"-\",\"track\":0,\"proto\":\"udp\",\"mode\":\"-\",\"ok\":true,\"st1\":\"preRecord\",\"ends\":false}]}")
        /\
        mcleanup = (FALSE)
        /\
        setupped = ({0})
        /\
        mudp = (TRUE)
        /\
        touch = ({1, 2})
        /\
        presumed = ("no")
        /\
        mpend = ([c |-> 0, m |-> "-", s0 |-> "-"])
        /\
        n = (4)
        /\
        mstate = ("preRecord")
        /\
        idKnown = (TRUE)
        /\
        gone = ({1, 2})
        /\
        hold = ({1})
        /\
        todo = (<<[e |-> "settle", c |-> 0]>>)
        /\
        hist = (<<[proto |-> "tcp", c |-> 1, m |-> "ANNOUNCE", st1 |-> "preRecord", ok |-> TRUE, mode |-> "play", ends |-> FALSE, k |-> "req", track |-> 0], [proto |-> "udp", c |-> 1, m |-> "SETUP", st1 |-> "preRecord", ok |-> TRUE, mode |-> "record", ends |-> FALSE, k |-> "req", track |-> 0], [proto |-> "udp", c |-> 2, m |-> "SETUP", st1 |-> "preRecord", ok |-> FALSE, mode |-> "record", ends |-> FALSE, k |-> "req", track |-> 0], [proto |-> "udp", c |-> 1, m |-> "-", st1 |-> "preRecord", ok |-> TRUE, mode |-> "-", ends |-> FALSE, k |-> "close", track |-> 0]>>)
        /\
        mtorn = (FALSE)
        /\
        proto = ("udp")
        /\
        members = ({2})
        /\
        leaving = ({1, 2})
        /\
        mopened = (1)
        /\
        open = ({})
        /\
        linked = ({1})
    )
----

_init ==
    /\ mpend = _TETrace[1].mpend
    /\ proto = _TETrace[1].proto
    /\ mstate = _TETrace[1].mstate
    /\ n = _TETrace[1].n
    /\ idKnown = _TETrace[1].idKnown
    /\ mudp = _TETrace[1].mudp
    /\ mclosed = _TETrace[1].mclosed
    /\ beh = _TETrace[1].beh
    /\ gone = _TETrace[1].gone
    /\ open = _TETrace[1].open
    /\ touch = _TETrace[1].touch
    /\ hist = _TETrace[1].hist
    /\ st = _TETrace[1].st
    /\ mtorn = _TETrace[1].mtorn
    /\ todo = _TETrace[1].todo
    /\ mcleanup = _TETrace[1].mcleanup
    /\ linked = _TETrace[1].linked
    /\ leaving = _TETrace[1].leaving
    /\ presumed = _TETrace[1].presumed
    /\ members = _TETrace[1].members
    /\ tcpConn = _TETrace[1].tcpConn
    /\ setupped = _TETrace[1].setupped
    /\ hold = _TETrace[1].hold
    /\ mopened = _TETrace[1].mopened
----

_next ==
    /\ \E i,j \in DOMAIN _TETrace:
        /\ \/ /\ j = i + 1
              /\ i = TLCGet("level")
        /\ mpend  = _TETrace[i].mpend
        /\ mpend' = _TETrace[j].mpend
        /\ proto  = _TETrace[i].proto
        /\ proto' = _TETrace[j].proto
        /\ mstate  = _TETrace[i].mstate
        /\ mstate' = _TETrace[j].mstate
        /\ n  = _TETrace[i].n
        /\ n' = _TETrace[j].n
        /\ idKnown  = _TETrace[i].idKnown
        /\ idKnown' = _TETrace[j].idKnown
        /\ mudp  = _TETrace[i].mudp
        /\ mudp' = _TETrace[j].mudp
        /\ mclosed  = _TETrace[i].mclosed
        /\ mclosed' = _TETrace[j].mclosed
        /\ beh  = _TETrace[i].beh
        /\ beh' = _TETrace[j].beh
        /\ gone  = _TETrace[i].gone
        /\ gone' = _TETrace[j].gone
        /\ open  = _TETrace[i].open
        /\ open' = _TETrace[j].open
        /\ touch  = _TETrace[i].touch
        /\ touch' = _TETrace[j].touch
        /\ hist  = _TETrace[i].hist
        /\ hist' = _TETrace[j].hist
        /\ st  = _TETrace[i].st
        /\ st' = _TETrace[j].st
        /\ mtorn  = _TETrace[i].mtorn
        /\ mtorn' = _TETrace[j].mtorn
        /\ todo  = _TETrace[i].todo
        /\ todo' = _TETrace[j].todo
        /\ mcleanup  = _TETrace[i].mcleanup
        /\ mcleanup' = _TETrace[j].mcleanup
        /\ linked  = _TETrace[i].linked
        /\ linked' = _TETrace[j].linked
        /\ leaving  = _TETrace[i].leaving
        /\ leaving' = _TETrace[j].leaving
        /\ presumed  = _TETrace[i].presumed
        /\ presumed' = _TETrace[j].presumed
        /\ members  = _TETrace[i].members
        /\ members' = _TETrace[j].members
        /\ tcpConn  = _TETrace[i].tcpConn
        /\ tcpConn' = _TETrace[j].tcpConn
        /\ setupped  = _TETrace[i].setupped
        /\ setupped' = _TETrace[j].setupped
        /\ hold  = _TETrace[i].hold
        /\ hold' = _TETrace[j].hold
        /\ mopened  = _TETrace[i].mopened
        /\ mopened' = _TETrace[j].mopened

\* Uncomment the ASSUME below to write the states of the error trace
\* to the given file in Json format. Note that you can pass any tuple
\* to `JsonSerialize`. For example, a sub-sequence of _TETrace.
    \* ASSUME
    \*     LET J == INSTANCE Json
    \*         IN J!JsonSerialize("SharedSession_TTrace_1790208093.json", _TETrace)

=============================================================================

 Note that you can extract this module `SharedSession_TEExpression`
  to a dedicated file to reuse `expression` (the module in the 
  dedicated `SharedSession_TEExpression.tla` file takes precedence 
  over the module `SharedSession_TEExpression` below).

---- MODULE SharedSession_TEExpression ----
EXTENDS SharedSession, Sequences, TLCExt, Toolbox, Naturals, TLC

expression == 
    [
        \* To hide variables of the `SharedSession` spec from the error trace,
        \* remove the variables below.  The trace will be written in the order
        \* of the fields of this record.
        mpend |-> mpend
        ,proto |-> proto
        ,mstate |-> mstate
        ,n |-> n
        ,idKnown |-> idKnown
        ,mudp |-> mudp
        ,mclosed |-> mclosed
        ,beh |-> beh
        ,gone |-> gone
        ,open |-> open
        ,touch |-> touch
        ,hist |-> hist
        ,st |-> st
        ,mtorn |-> mtorn
        ,todo |-> todo
        ,mcleanup |-> mcleanup
        ,linked |-> linked
        ,leaving |-> leaving
        ,presumed |-> presumed
        ,members |-> members
        ,tcpConn |-> tcpConn
        ,setupped |-> setupped
        ,hold |-> hold
        ,mopened |-> mopened
        
        \* Put additional constant-, state-, and action-level expressions here:
        \* ,_stateNumber |-> _TEPosition
        \* ,_mpendUnchanged |-> mpend = mpend'
        
        \* Format the `mpend` variable as Json value.
        \* ,_mpendJson |->
        \*     LET J == INSTANCE Json
        \*     IN J!ToJson(mpend)
        
        \* Lastly, you may build expressions over arbitrary sets of states by
        \* leveraging the _TETrace operator.  For example, this is how to
        \* count the number of times a spec variable changed up to the current
        \* state in the trace.
        \* ,_mpendModCount |->
        \*     LET F[s \in DOMAIN _TETrace] ==
        \*         IF s = 1 THEN 0
        \*         ELSE IF _TETrace[s].mpend # _TETrace[s-1].mpend
        \*             THEN 1 + F[s-1] ELSE F[s-1]
        \*     IN F[_TEPosition - 1]
    ]

=============================================================================



Parsing and semantic processing can take forever if the trace below is long.
 In this case, it is advised to uncomment the module below to deserialize the
 trace from a generated binary file.

\*
\*---- MODULE SharedSession_TETrace ----
\*EXTENDS SharedSession, IOUtils, TLC
\*
\*trace == IODeserialize("SharedSession_TTrace_1790208093.bin", TRUE)
\*
\*=============================================================================
\*

---- MODULE SharedSession_TETrace ----
EXTENDS SharedSession, TLC

trace == 
    <<
    ([tcpConn |-> 0,st |-> "none",mclosed |-> 0,beh |-> "",mcleanup |-> FALSE,setupped |-> {},mudp |-> FALSE,touch |-> {},presumed |-> "no",mpend |-> [c |-> 0, m |-> "-", s0 |-> "-"],n |-> 0,mstate |-> "none",idKnown |-> FALSE,gone |-> {},hold |-> {},todo |-> <<>>,hist |-> <<>>,mtorn |-> FALSE,proto |-> "none",members |-> {},leaving |-> {},mopened |-> 0,open |-> {1, 2},linked |-> {}]),
    ([tcpConn |-> 0,st |-> "preRecord",mclosed |-> 0,beh |-> "",mcleanup |-> FALSE,setupped |-> {},mudp |-> FALSE,touch |-> {},presumed |-> "no",mpend |-> [c |-> 0, m |-> "-", s0 |-> "-"],n |-> 1,mstate |-> "none",idKnown |-> FALSE,gone |-> {},hold |-> {},todo |-> <<[e |-> "mreq_begin", c |-> 1, m |-> "ANNOUNCE", st0 |-> "none", sid |-> FALSE], [e |-> "sess_open", c |-> 0], [e |-> "mreq", c |-> 1, m |-> "ANNOUNCE", status |-> 200, st1 |-> "preRecord", udp |-> FALSE]>>,hist |-> <<[proto |-> "tcp", c |-> 1, m |-> "ANNOUNCE", st1 |-> "preRecord", ok |-> TRUE, mode |-> "play", ends |-> FALSE, k |-> "req", track |-> 0]>>,mtorn |-> FALSE,proto |-> "none",members |-> {1},leaving |-> {},mopened |-> 0,open |-> {1, 2},linked |-> {1}]),
    ([tcpConn |-> 0,st |-> "preRecord",mclosed |-> 0,beh |-> "",mcleanup |-> FALSE,setupped |-> {},mudp |-> FALSE,touch |-> {1},presumed |-> "no",mpend |-> [c |-> 1, m |-> "ANNOUNCE", s0 |-> "none"],n |-> 1,mstate |-> "none",idKnown |-> FALSE,gone |-> {},hold |-> {},todo |-> <<[e |-> "sess_open", c |-> 0], [e |-> "mreq", c |-> 1, m |-> "ANNOUNCE", status |-> 200, st1 |-> "preRecord", udp |-> FALSE]>>,hist |-> <<[proto |-> "tcp", c |-> 1, m |-> "ANNOUNCE", st1 |-> "preRecord", ok |-> TRUE, mode |-> "play", ends |-> FALSE, k |-> "req", track |-> 0]>>,mtorn |-> FALSE,proto |-> "none",members |-> {1},leaving |-> {},mopened |-> 0,open |-> {1, 2},linked |-> {1}]),
    ([tcpConn |-> 0,st |-> "preRecord",mclosed |-> 0,beh |-> "",mcleanup |-> FALSE,setupped |-> {},mudp |-> FALSE,touch |-> {1},presumed |-> "no",mpend |-> [c |-> 1, m |-> "ANNOUNCE", s0 |-> "none"],n |-> 1,mstate |-> "none",idKnown |-> FALSE,gone |-> {},hold |-> {},todo |-> <<[e |-> "mreq", c |-> 1, m |-> "ANNOUNCE", status |-> 200, st1 |-> "preRecord", udp |-> FALSE]>>,hist |-> <<[proto |-> "tcp", c |-> 1, m |-> "ANNOUNCE", st1 |-> "preRecord", ok |-> TRUE, mode |-> "play", ends |-> FALSE, k |-> "req", track |-> 0]>>,mtorn |-> FALSE,proto |-> "none",members |-> {1},leaving |-> {},mopened |-> 1,open |-> {1, 2},linked |-> {1}]),
    ([tcpConn |-> 0,st |-> "preRecord",mclosed |-> 0,beh |-> "",mcleanup |-> FALSE,setupped |-> {},mudp |-> FALSE,touch |-> {1},presumed |-> "no",mpend |-> [c |-> 0, m |-> "-", s0 |-> "-"],n |-> 1,mstate |-> "preRecord",idKnown |-> FALSE,gone |-> {},hold |-> {1},todo |-> <<>>,hist |-> <<[proto |-> "tcp", c |-> 1, m |-> "ANNOUNCE", st1 |-> "preRecord", ok |-> TRUE, mode |-> "play", ends |-> FALSE, k |-> "req", track |-> 0]>>,mtorn |-> FALSE,proto |-> "none",members |-> {1},leaving |-> {},mopened |-> 1,open |-> {1, 2},linked |-> {1}]),
    ([tcpConn |-> 0,st |-> "preRecord",mclosed |-> 0,beh |-> "",mcleanup |-> FALSE,setupped |-> {0},mudp |-> FALSE,touch |-> {1},presumed |-> "no",mpend |-> [c |-> 0, m |-> "-", s0 |-> "-"],n |-> 2,mstate |-> "preRecord",idKnown |-> TRUE,gone |-> {},hold |-> {1},todo |-> <<[e |-> "mreq_begin", c |-> 1, m |-> "SETUP", st0 |-> "preRecord", sid |-> FALSE], [e |-> "mreq", c |-> 1, m |-> "SETUP", status |-> 200, st1 |-> "preRecord", udp |-> TRUE]>>,hist |-> <<[proto |-> "tcp", c |-> 1, m |-> "ANNOUNCE", st1 |-> "preRecord", ok |-> TRUE, mode |-> "play", ends |-> FALSE, k |-> "req", track |-> 0], [proto |-> "udp", c |-> 1, m |-> "SETUP", st1 |-> "preRecord", ok |-> TRUE, mode |-> "record", ends |-> FALSE, k |-> "req", track |-> 0]>>,mtorn |-> FALSE,proto |-> "udp",members |-> {1},leaving |-> {},mopened |-> 1,open |-> {1, 2},linked |-> {1}]),
    ([tcpConn |-> 0,st |-> "preRecord",mclosed |-> 0,beh |-> "",mcleanup |-> FALSE,setupped |-> {0},mudp |-> FALSE,touch |-> {1},presumed |-> "no",mpend |-> [c |-> 1, m |-> "SETUP", s0 |-> "preRecord"],n |-> 2,mstate |-> "preRecord",idKnown |-> TRUE,gone |-> {},hold |-> {1},todo |-> <<[e |-> "mreq", c |-> 1, m |-> "SETUP", status |-> 200, st1 |-> "preRecord", udp |-> TRUE]>>,hist |-> <<[proto |-> "tcp", c |-> 1, m |-> "ANNOUNCE", st1 |-> "preRecord", ok |-> TRUE, mode |-> "play", ends |-> FALSE, k |-> "req", track |-> 0], [proto |-> "udp", c |-> 1, m |-> "SETUP", st1 |-> "preRecord", ok |-> TRUE, mode |-> "record", ends |-> FALSE, k |-> "req", track |-> 0]>>,mtorn |-> FALSE,proto |-> "udp",members |-> {1},leaving |-> {},mopened |-> 1,open |-> {1, 2},linked |-> {1}]),
    ([tcpConn |-> 0,st |-> "preRecord",mclosed |-> 0,beh |-> "",mcleanup |-> FALSE,setupped |-> {0},mudp |-> TRUE,touch |-> {1},presumed |-> "no",mpend |-> [c |-> 0, m |-> "-", s0 |-> "-"],n |-> 2,mstate |-> "preRecord",idKnown |-> TRUE,gone |-> {},hold |-> {1},todo |-> <<>>,hist |-> <<[proto |-> "tcp", c |-> 1, m |-> "ANNOUNCE", st1 |-> "preRecord", ok |-> TRUE, mode |-> "play", ends |-> FALSE, k |-> "req", track |-> 0], [proto |-> "udp", c |-> 1, m |-> "SETUP", st1 |-> "preRecord", ok |-> TRUE, mode |-> "record", ends |-> FALSE, k |-> "req", track |-> 0]>>,mtorn |-> FALSE,proto |-> "udp",members |-> {1},leaving |-> {},mopened |-> 1,open |-> {1, 2},linked |-> {1}]),
    ([tcpConn |-> 0,st |-> "preRecord",mclosed |-> 0,beh |-> "",mcleanup |-> FALSE,setupped |-> {0},mudp |-> TRUE,touch |-> {1},presumed |-> "no",mpend |-> [c |-> 0, m |-> "-", s0 |-> "-"],n |-> 3,mstate |-> "preRecord",idKnown |-> TRUE,gone |-> {},hold |-> {1},todo |-> <<[e |-> "mreq_begin", c |-> 2, m |-> "SETUP", st0 |-> "preRecord", sid |-> TRUE], [e |-> "mreq", c |-> 2, m |-> "SETUP", status |-> 400, st1 |-> "preRecord", udp |-> TRUE], [e |-> "conn_close", c |-> 2], [e |-> "settle", c |-> 0]>>,hist |-> <<[proto |-> "tcp", c |-> 1, m |-> "ANNOUNCE", st1 |-> "preRecord", ok |-> TRUE, mode |-> "play", ends |-> FALSE, k |-> "req", track |-> 0], [proto |-> "udp", c |-> 1, m |-> "SETUP", st1 |-> "preRecord", ok |-> TRUE, mode |-> "record", ends |-> FALSE, k |-> "req", track |-> 0], [proto |-> "udp", c |-> 2, m |-> "SETUP", st1 |-> "preRecord", ok |-> FALSE, mode |-> "record", ends |-> FALSE, k |-> "req", track |-> 0]>>,mtorn |-> FALSE,proto |-> "udp",members |-> {1, 2},leaving |-> {},mopened |-> 1,open |-> {1},linked |-> {1}]),
    ([tcpConn |-> 0,st |-> "preRecord",mclosed |-> 0,beh |-> "",mcleanup |-> FALSE,setupped |-> {0},mudp |-> TRUE,touch |-> {1, 2},presumed |-> "no",mpend |-> [c |-> 2, m |-> "SETUP", s0 |-> "preRecord"],n |-> 3,mstate |-> "preRecord",idKnown |-> TRUE,gone |-> {},hold |-> {1},todo |-> <<[e |-> "mreq", c |-> 2, m |-> "SETUP", status |-> 400, st1 |-> "preRecord", udp |-> TRUE], [e |-> "conn_close", c |-> 2], [e |-> "settle", c |-> 0]>>,hist |-> <<[proto |-> "tcp", c |-> 1, m |-> "ANNOUNCE", st1 |-> "preRecord", ok |-> TRUE, mode |-> "play", ends |-> FALSE, k |-> "req", track |-> 0], [proto |-> "udp", c |-> 1, m |-> "SETUP", st1 |-> "preRecord", ok |-> TRUE, mode |-> "record", ends |-> FALSE, k |-> "req", track |-> 0], [proto |-> "udp", c |-> 2, m |-> "SETUP", st1 |-> "preRecord", ok |-> FALSE, mode |-> "record", ends |-> FALSE, k |-> "req", track |-> 0]>>,mtorn |-> FALSE,proto |-> "udp",members |-> {1, 2},leaving |-> {},mopened |-> 1,open |-> {1},linked |-> {1}]),
    ([tcpConn |-> 0,st |-> "preRecord",mclosed |-> 0,beh |-> "",mcleanup |-> FALSE,setupped |-> {0},mudp |-> TRUE,touch |-> {1, 2},presumed |-> "no",mpend |-> [c |-> 0, m |-> "-", s0 |-> "-"],n |-> 3,mstate |-> "preRecord",idKnown |-> TRUE,gone |-> {},hold |-> {1},todo |-> <<[e |-> "conn_close", c |-> 2], [e |-> "settle", c |-> 0]>>,hist |-> <<[proto |-> "tcp", c |-> 1, m |-> "ANNOUNCE", st1 |-> "preRecord", ok |-> TRUE, mode |-> "play", ends |-> FALSE, k |-> "req", track |-> 0], [proto |-> "udp", c |-> 1, m |-> "SETUP", st1 |-> "preRecord", ok |-> TRUE, mode |-> "record", ends |-> FALSE, k |-> "req", track |-> 0], [proto |-> "udp", c |-> 2, m |-> "SETUP", st1 |-> "preRecord", ok |-> FALSE, mode |-> "record", ends |-> FALSE, k |-> "req", track |-> 0]>>,mtorn |-> FALSE,proto |-> "udp",members |-> {1, 2},leaving |-> {2},mopened |-> 1,open |-> {1},linked |-> {1}]),
    ([tcpConn |-> 0,st |-> "preRecord",mclosed |-> 0,beh |-> "",mcleanup |-> FALSE,setupped |-> {0},mudp |-> TRUE,touch |-> {1, 2},presumed |-> "no",mpend |-> [c |-> 0, m |-> "-", s0 |-> "-"],n |-> 3,mstate |-> "preRecord",idKnown |-> TRUE,gone |-> {2},hold |-> {1},todo |-> <<[e |-> "settle", c |-> 0]>>,hist |-> <<[proto |-> "tcp", c |-> 1, m |-> "ANNOUNCE", st1 |-> "preRecord", ok |-> TRUE, mode |-> "play", ends |-> FALSE, k |-> "req", track |-> 0], [proto |-> "udp", c |-> 1, m |-> "SETUP", st1 |-> "preRecord", ok |-> TRUE, mode |-> "record", ends |-> FALSE, k |-> "req", track |-> 0], [proto |-> "udp", c |-> 2, m |-> "SETUP", st1 |-> "preRecord", ok |-> FALSE, mode |-> "record", ends |-> FALSE, k |-> "req", track |-> 0]>>,mtorn |-> FALSE,proto |-> "udp",members |-> {1, 2},leaving |-> {2},mopened |-> 1,open |-> {1},linked |-> {1}]),
    ([tcpConn |-> 0,st |-> "preRecord",mclosed |-> 0,beh |-> "",mcleanup |-> FALSE,setupped |-> {0},mudp |-> TRUE,touch |-> {1, 2},presumed |-> "no",mpend |-> [c |-> 0, m |-> "-", s0 |-> "-"],n |-> 3,mstate |-> "preRecord",idKnown |-> TRUE,gone |-> {2},hold |-> {1},todo |-> <<>>,hist |-> <<[proto |-> "tcp", c |-> 1, m |-> "ANNOUNCE", st1 |-> "preRecord", ok |-> TRUE, mode |-> "play", ends |-> FALSE, k |-> "req", track |-> 0], [proto |-> "udp", c |-> 1, m |-> "SETUP", st1 |-> "preRecord", ok |-> TRUE, mode |-> "record", ends |-> FALSE, k |-> "req", track |-> 0], [proto |-> "udp", c |-> 2, m |-> "SETUP", st1 |-> "preRecord", ok |-> FALSE, mode |-> "record", ends |-> FALSE, k |-> "req", track |-> 0]>>,mtorn |-> FALSE,proto |-> "udp",members |-> {1, 2},leaving |-> {2},mopened |-> 1,open |-> {1},linked |-> {1}]),
    ([tcpConn |-> 0,st |-> "preRecord",mclosed |-> 0,beh |-> "{\"conns\":2,\"steps\":[{\"proto\":\"tcp\",\"c\":1,\"m\":\"ANNOUNCE\",\"st1\":\"preRecord\",\"ok\":true,\"mode\":\"play\",\"ends\":false,\"k\":\"req\",\"track\":0},{\"proto\":\"udp\",\"c\":1,\"m\":\"SETUP\",\"st1\":\"preRecord\",\"ok\":true,\"mode\":\"record\",\"ends\":false,\"k\":\"req\",\"track\":0},{\"proto\":\"udp\",\"c\":2,\"m\":\"SETUP\",\"st1\":\"preRecord\",\"ok\":false,\"mode\":\"record\",\"ends\":false,\"k\":\"req\",\"track\":0},{\"k\":\"close\",\"c\":1,\"m\":\"-\",\"track\":0,\"proto\":\"udp\",\"mode\":\"-\",\"ok\":true,\"st1\":\"preRecord\",\"ends\":false}]}",mcleanup |-> FALSE,setupped |-> {0},mudp |-> TRUE,touch |-> {1, 2},presumed |-> "no",mpend |-> [c |-> 0, m |-> "-", s0 |-> "-"],n |-> 4,mstate |-> "preRecord",idKnown |-> TRUE,gone |-> {2},hold |-> {1},todo |-> <<[e |-> "peer_close", c |-> 1], [e |-> "conn_close", c |-> 1], [e |-> "settle", c |-> 0]>>,hist |-> <<[proto |-> "tcp", c |-> 1, m |-> "ANNOUNCE", st1 |-> "preRecord", ok |-> TRUE, mode |-> "play", ends |-> FALSE, k |-> "req", track |-> 0], [proto |-> "udp", c |-> 1, m |-> "SETUP", st1 |-> "preRecord", ok |-> TRUE, mode |-> "record", ends |-> FALSE, k |-> "req", track |-> 0], [proto |-> "udp", c |-> 2, m |-> "SETUP", st1 |-> "preRecord", ok |-> FALSE, mode |-> "record", ends |-> FALSE, k |-> "req", track |-> 0], [proto |-> "udp", c |-> 1, m |-> "-", st1 |-> "preRecord", ok |-> TRUE, mode |-> "-", ends |-> FALSE, k |-> "close", track |-> 0]>>,mtorn |-> FALSE,proto |-> "udp",members |-> {2},leaving |-> {2},mopened |-> 1,open |-> {},linked |-> {1}]),
    ([tcpConn |-> 0,st |-> "preRecord",mclosed |-> 0,beh |-> "{\"conns\":2,\"steps\":[{\"proto\":\"tcp\",\"c\":1,\"m\":\"ANNOUNCE\",\"st1\":\"preRecord\",\"ok\":true,\"mode\":\"play\",\"ends\":false,\"k\":\"req\",\"track\":0},{\"proto\":\"udp\",\"c\":1,\"m\":\"SETUP\",\"st1\":\"preRecord\",\"ok\":true,\"mode\":\"record\",\"ends\":false,\"k\":\"req\",\"track\":0},{\"proto\":\"udp\",\"c\":2,\"m\":\"SETUP\",\"st1\":\"preRecord\",\"ok\":false,\"mode\":\"record\",\"ends\":false,\"k\":\"req\",\"track\":0},{\"k\":\"close\",\"c\":1,\"m\":\"-\",\"track\":0,\"proto\":\"udp\",\"mode\":\"-\",\"ok\":true,\"st1\":\"preRecord\",\"ends\":false}]}",mcleanup |-> FALSE,setupped |-> {0},mudp |-> TRUE,touch |-> {1, 2},presumed |-> "no",mpend |-> [c |-> 0, m |-> "-", s0 |-> "-"],n |-> 4,mstate |-> "preRecord",idKnown |-> TRUE,gone |-> {2},hold |-> {1},todo |-> <<[e |-> "conn_close", c |-> 1], [e |-> "settle", c |-> 0]>>,hist |-> <<[proto |-> "tcp", c |-> 1, m |-> "ANNOUNCE", st1 |-> "preRecord", ok |-> TRUE, mode |-> "play", ends |-> FALSE, k |-> "req", track |-> 0], [proto |-> "udp", c |-> 1, m |-> "SETUP", st1 |-> "preRecord", ok |-> TRUE, mode |-> "record", ends |-> FALSE, k |-> "req", track |-> 0], [proto |-> "udp", c |-> 2, m |-> "SETUP", st1 |-> "preRecord", ok |-> FALSE, mode |-> "record", ends |-> FALSE, k |-> "req", track |-> 0], [proto |-> "udp", c |-> 1, m |-> "-", st1 |-> "preRecord", ok |-> TRUE, mode |-> "-", ends |-> FALSE, k |-> "close", track |-> 0]>>,mtorn |-> FALSE,proto |-> "udp",members |-> {2},leaving |-> {1, 2},mopened |-> 1,open |-> {},linked |-> {1}]),
    ([tcpConn |-> 0,st |-> "preRecord",mclosed |-> 0,beh |-> "{\"conns\":2,\"steps\":[{\"proto\":\"tcp\",\"c\":1,\"m\":\"ANNOUNCE\",\"st1\":\"preRecord\",\"ok\":true,\"mode\":\"play\",\"ends\":false,\"k\":\"req\",\"track\":0},{\"proto\":\"udp\",\"c\":1,\"m\":\"SETUP\",\"st1\":\"preRecord\",\"ok\":true,\"mode\":\"record\",\"ends\":false,\"k\":\"req\",\"track\":0},{\"proto\":\"udp\",\"c\":2,\"m\":\"SETUP\",\"st1\":\"preRecord\",\"ok\":false,\"mode\":\"record\",\"ends\":false,\"k\":\"req\",\"track\":0},{\"k\":\"close\",\"c\":1,\"m\":\"-\",\"track\":0,\"proto\":\"udp\",\"mode\":\"-\",\"ok\":true,\"st1\":\"preRecord\",\"ends\":false}]}",mcleanup |-> FALSE,setupped |-> {0},mudp |-> TRUE,touch |-> {1, 2},presumed |-> "no",mpend |-> [c |-> 0, m |-> "-", s0 |-> "-"],n |-> 4,mstate |-> "preRecord",idKnown |-> TRUE,gone |-> {1, 2},hold |-> {1},todo |-> <<[e |-> "settle", c |-> 0]>>,hist |-> <<[proto |-> "tcp", c |-> 1, m |-> "ANNOUNCE", st1 |-> "preRecord", ok |-> TRUE, mode |-> "play", ends |-> FALSE, k |-> "req", track |-> 0], [proto |-> "udp", c |-> 1, m |-> "SETUP", st1 |-> "preRecord", ok |-> TRUE, mode |-> "record", ends |-> FALSE, k |-> "req", track |-> 0], [proto |-> "udp", c |-> 2, m |-> "SETUP", st1 |-> "preRecord", ok |-> FALSE, mode |-> "record", ends |-> FALSE, k |-> "req", track |-> 0], [proto |-> "udp", c |-> 1, m |-> "-", st1 |-> "preRecord", ok |-> TRUE, mode |-> "-", ends |-> FALSE, k |-> "close", track |-> 0]>>,mtorn |-> FALSE,proto |-> "udp",members |-> {2},leaving |-> {1, 2},mopened |-> 1,open |-> {},linked |-> {1}])
    >>
----


=============================================================================

---- CONFIG SharedSession_TTrace_1790208093 ----
CONSTANTS
    Conns = { 1 , 2 }
    MaxSteps = 4
    Protos <- ProtosUT
    LaterTracks = { 1 }
    MethodSetM <- AllMethodsM
    LinkOnFail = FALSE

INVARIANT
    _inv

CHECK_DEADLOCK
    \* CHECK_DEADLOCK off because of PROPERTY or INVARIANT above.
    FALSE

INIT
    _init

NEXT
    _next

CONSTANT
    _TETrace <- _trace

ALIAS
    _expression
=============================================================================
\* Generated on Thu Sep 24 00:01:35 UTC 2026