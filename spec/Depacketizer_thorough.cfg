SPECIFICATION Spec
CONSTANTS
  Shapes <- ShapesThorough
  MaxFaults = 3
  MaxBurst = 0
INVARIANT BImpliesA
INVARIANT Settled
CHECK_DEADLOCK FALSE
