SPECIFICATION Spec
CONSTANTS
  Shapes <- ShapesThorough
  MaxFaults = 3
INVARIANT BImpliesA
INVARIANT Settled
CHECK_DEADLOCK FALSE
