SPECIFICATION SpecH
CONSTANTS
  M = 65536
  Sizes = {2}
  Modes = {TRUE}
  Starts = {0, 65534}
  MaxLen = 4
  Window = 2
CHECK_DEADLOCK FALSE
