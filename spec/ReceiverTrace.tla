--------------------------- MODULE ReceiverTrace ---------------------------
(* Trace validation of real rtpreceiver.Receiver executions against ReceiverProp. *)
EXTENDS TraceIO, ReceiverProp

ResetAct == AReset(Ev.S, Ev.unrel)

StepAct ==
  /\ \/ Is("proc")   /\ Proc(Ev.seq, Ev.out, Ev.lost)
     \/ Is("stats")  /\ Stats(Ev.recv, Ev.lost, Ev.last)
     \/ Is("report") /\ Report(Ev.cycles, Ev.seq, Ev.total, Ev.frac)
     \/ Is("e2e_restart") /\ RestartE2E(Ev.followed, Ev.after, Ev.S)
     \/ Is("e2e_order") /\ OrderE2E(Ev.increasing, Ev.delivered, Ev.sent)
     \/ Is("end")    /\ UNCHANGED avars
  /\ AInv'

Next == TraceNext(ResetAct, StepAct, UNCHANGED avars)
Init == TraceInit /\ AInit(1, FALSE)
Spec == Init /\ [][Next]_<<tvars, avars>>
=============================================================================
