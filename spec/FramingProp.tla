----------------------------- MODULE FramingProp -----------------------------
(***************************************************************************)
(* Level A (property) specification for C04: RTSP framing over any         *)
(* chunking and any byte carrier.                                          *)
(*                                                                         *)
(* One trace = one byte stream: a sequence of elements (requests,          *)
(* responses, interleaved frames; for the raw base64 carrier: the bytes of *)
(* each write) serialised back to back by the real writer, cut into reads  *)
(* in some way, carried directly / through the base64 tunnel reader /      *)
(* through WebSocket messages, and read back by the real reader.           *)
(*   Wr(id)            element id was written (ids are 1, 2, 3, ...)       *)
(*   Rd(id, same)      the reader returned an element; the harness matched *)
(*                     it to written element id (0: matches none) and      *)
(*                     compared every field (method/status, URL, headers,  *)
(*                     body, channel, payload): same                       *)
(*   RdErr / RdEof     the reader failed / reported the end of the stream  *)
(*   Limit(what, rel, accepted, bufOk)  an element whose `what` (header    *)
(*                     count, key, value, URL, method, body length) is     *)
(*                     below (rel = -1), at (0) or above (+1) the          *)
(*                     documented limit was offered                        *)
(***************************************************************************)
EXTENDS Naturals, Integers, Sequences

VARIABLES written,   \* number of elements written
          readN,     \* number of elements read back
          eof
fvars == <<written, readN, eof>>

FInit == written = 0 /\ readN = 0 /\ eof = FALSE
FReset == written' = 0 /\ readN' = 0 /\ eof' = FALSE

Wr(id) == id = written + 1 /\ written' = id /\ UNCHANGED <<readN, eof>>

\* read back: the next element, identical, nothing skipped, duplicated or invented
Rd(id, same) ==
  /\ ~eof /\ id = readN + 1 /\ id <= written /\ same
  /\ readN' = id /\ UNCHANGED <<written, eof>>

\* the stream ends exactly after the last element
RdEof == ~eof /\ readN = written /\ eof' = TRUE /\ UNCHANGED <<written, readN>>

\* a request or response handed out earlier, looked at again after later elements were read, is
\* still what was written (interleaved frames are documented as reused by the reader: not claimed)
Still(id, same) == id >= 1 /\ id <= readN /\ same /\ UNCHANGED fvars

\* a read error on a well-formed stream is never acceptable
RdErr == FALSE /\ UNCHANGED fvars

\* documented limits: strictly below is accepted, strictly above is refused, the value
\* at the limit is left open; whatever was buffered before the refusal is bounded
Limit(what, rel, accepted, bufOk) ==
  /\ rel < 0 => accepted
  /\ rel > 0 => (~accepted /\ bufOk)
  /\ UNCHANGED fvars

\* ... and where the line is drawn does not depend on how the bytes arrive: the same element,
\* delivered whole and delivered in pieces, is accepted both times or refused both times
LimitSame(what, rel, whole, pieces) == whole = pieces /\ UNCHANGED fvars
=============================================================================
