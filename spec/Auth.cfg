SPECIFICATION Spec
INVARIANT BImpliesA
INVARIANT ChoiceOK
CHECK_DEADLOCK FALSE
