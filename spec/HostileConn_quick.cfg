SPECIFICATION Spec
CONSTANTS
  Prefixes <- AllPrefixes
  Classes <- AllClasses
  MaxSteps = 1
INVARIANT OutcomeOK
INVARIANT NoOrphan
CHECK_DEADLOCK FALSE
