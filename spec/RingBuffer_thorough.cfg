SPECIFICATION Spec
CONSTANTS
  N = 4
  Producers = {1, 2, 3}
  PerProducer = 2
  FailItem = 21
  ClosedFirst = TRUE
  Nil = Nil
INVARIANT AInv
PROPERTY Refines
PROPERTY NoLostWakeup
PROPERTY CloseReturns
