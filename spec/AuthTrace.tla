----------------------------- MODULE AuthTrace -----------------------------
(* Trace validation of real auth.Sender / auth.Verify / server exchanges against AuthProp. *)
EXTENDS TraceIO, AuthProp

ResetAct == AResetAuth

StepAct ==
  \/ Is("verify") /\ Verify(Ev.sent, Ev.pert, Ev.enabledHas, Ev.accepted)
  \/ Is("wire")   /\ Wire(Ev.creds, Ev.status, Ev.kept, IF "sent" \in DOMAIN Ev THEN Ev.sent ELSE "-")
  \/ Is("end")    /\ UNCHANGED authvars

Next == TraceNext(ResetAct, StepAct, UNCHANGED authvars)
Init == TraceInit /\ AInitAuth
Spec == Init /\ [][Next]_<<tvars, authvars>>
=============================================================================
