---------------------------- MODULE Depacketizer ----------------------------
(***************************************************************************)
(* Level B model of a fragment-reassembling RTP depacketizer (the shape    *)
(* shared by rtph265, rtpvp8, rtpvp9, rtpfragmented, rtpmpeg4audio,        *)
(* rtpav1 after the fix, ...) under network faults, and generator of       *)
(* the fault sequences replayed on every real stateful decoder (C07).      *)
(*                                                                         *)
(* A stream of frames, frame k having Shape[k] packets, is sent in order.  *)
(* For each original packet the network chooses: deliver, drop, duplicate, *)
(* or swap with its successor (at most MaxFaults faults per stream).       *)
(* Besides these isolated faults a stream may suffer one BURST: the same   *)
(* loss in up to MaxBurst consecutive frames (the first, a middle, the     *)
(* last/marker packet of each, or each frame whole) - what a periodic      *)
(* disturbance does. A burst is chosen with the shape and costs no fault.  *)
(* The decoder keeps (assembling frame, next fragment index, last sequence *)
(* number):                                                                *)
(*   single packet frame : returned at once, fragments discarded           *)
(*   start fragment      : (re)start assembling                            *)
(*   other fragment      : nothing assembling        -> error              *)
(*                         sequence number not last+1 -> discard, error    *)
(*                         last fragment             -> frame returned     *)
(*                         otherwise                 -> more packets needed*)
(* TLC checks on every step that the decoder's answer is one the property  *)
(* specification (PayloadProp!Feed) accepts, for every fault sequence.     *)
(***************************************************************************)
EXTENDS PayloadProp, TLC, Json

CONSTANTS Shapes,      \* set of shapes; a shape is a tuple of packets-per-frame
          MaxFaults,
          MaxBurst     \* longest burst, in frames (0: no bursts)

VARIABLES shape,       \* the chosen shape
          burst,       \* the chosen burst: [cls, from, to], cls = "none" without one
          pos,         \* index (1-based, flattened) of the next original packet
          faults,      \* faults used so far
          asmF, asmNext, lastSeq,   \* decoder state
          asmOk,       \* ghost: the fragments assembled so far are asmF's 0..asmNext-1
          ops,         \* history of network choices, one per original packet (for export)
          held,        \* packet held back by a swap, or 0
          beh

dvars == <<shape, burst, pos, faults, asmF, asmNext, lastSeq, asmOk, ops, held, beh>>

\* flattened stream: packet p -> [f, i, n]
RECURSIVE Flat(_, _)
Flat(sh, k) == IF k > Len(sh) THEN <<>>
               ELSE [i \in 1..sh[k] |-> [f |-> k, i |-> i - 1, n |-> sh[k]]] \o Flat(sh, k + 1)
Stream == Flat(shape, 1)

\* packets removed by the burst
BurstClasses == {"first", "mid", "last", "whole"}
Hit(pk) ==
  /\ burst.cls # "none" /\ pk.f >= burst.from /\ pk.f <= burst.to
  /\ CASE burst.cls = "first" -> pk.i = 0 /\ pk.n > 1
       [] burst.cls = "last"  -> pk.i = pk.n - 1 /\ pk.n > 1
       [] burst.cls = "mid"   -> pk.i > 0 /\ pk.i < pk.n - 1
       [] OTHER               -> TRUE
Bursts(sh) ==
  {[cls |-> "none", from |-> 0, to |-> 0]} \cup
  {[cls |-> c, from |-> a, to |-> b] : c \in BurstClasses, a \in 1..Len(sh), b \in 1..Len(sh)}

\* decoder reaction to packet number p of the original stream (its sequence number is p)
Answer(p) ==
  LET pk == Stream[p] IN
  LET fits == asmOk /\ pk.f = asmF /\ pk.i = asmNext IN
  IF pk.n = 1 THEN [res |-> "frame", rf |-> pk.f, ok |-> TRUE, af |-> 0, an |-> 0]
  ELSE IF pk.i = 0 THEN [res |-> "more", rf |-> 0, ok |-> TRUE, af |-> pk.f, an |-> 1]
  ELSE IF asmF = 0 THEN [res |-> "err", rf |-> 0, ok |-> FALSE, af |-> 0, an |-> 0]
  ELSE IF p # lastSeq + 1 THEN [res |-> "err", rf |-> 0, ok |-> FALSE, af |-> 0, an |-> 0]
  ELSE IF pk.i = pk.n - 1 THEN [res |-> "frame", rf |-> asmF, ok |-> fits, af |-> 0, an |-> 0]
  ELSE [res |-> "more", rf |-> 0, ok |-> fits, af |-> asmF, an |-> asmNext + 1]

\* feeding packet p to the decoder: decoder update + the Level A step
FeedPkt(p) ==
  LET pk == Stream[p]  a == Answer(p) IN
  /\ Feed(pk.f, pk.i, pk.n, a.res, a.rf, a.res = "frame" /\ a.ok)
  /\ asmF' = a.af /\ asmNext' = a.an /\ lastSeq' = p /\ asmOk' = a.ok

Init ==
  /\ PInit
  /\ shape \in Shapes /\ pos = 1 /\ faults = 0
  /\ burst \in {b \in Bursts(shape) : b.cls = "none" \/ (b.to > b.from /\ b.to < b.from + MaxBurst)}
  /\ asmF = 0 /\ asmNext = 0 /\ lastSeq = 0 /\ asmOk = FALSE /\ ops = <<>> /\ held = 0 /\ beh = ""

Total == Len(Stream)

Finish(o) ==
  /\ ops' = Append(ops, o)
  /\ beh' = IF pos' > Total THEN ToJson([shape |-> shape, ops |-> ops']) ELSE ""

\* network choices for original packet number pos
Deliver ==
  /\ pos <= Total
  /\ FeedPkt(pos) /\ pos' = pos + 1 /\ UNCHANGED <<shape, burst, faults, held>>
  /\ Finish("ok")

Drop ==
  /\ pos <= Total /\ faults < MaxFaults
  /\ pos' = pos + 1 /\ faults' = faults + 1
  /\ UNCHANGED <<pvars, shape, burst, asmF, asmNext, lastSeq, asmOk, held>>
  /\ Finish("drop")

\* the burst takes this packet (no choice, no fault counted)
BurstDrop ==
  /\ pos <= Total
  /\ pos' = pos + 1
  /\ UNCHANGED <<pvars, shape, burst, faults, asmF, asmNext, lastSeq, asmOk, held>>
  /\ Finish("drop")

\* duplicate: delivered now, and once more right away (two decoder steps: Dup then DupSecond)
Dup ==
  /\ pos <= Total /\ faults < MaxFaults /\ held = 0
  /\ FeedPkt(pos) /\ held' = pos /\ faults' = faults + 1
  /\ UNCHANGED <<shape, burst, pos, ops, beh>>
DupSecond ==
  /\ held # 0 /\ held = pos
  /\ FeedPkt(pos) /\ held' = 0 /\ pos' = pos + 1 /\ UNCHANGED <<shape, burst, faults>>
  /\ Finish("dup")

\* swap with the successor: successor first (SwapA), then this one (SwapB)
SwapA ==
  /\ pos < Total /\ faults < MaxFaults /\ held = 0 /\ ~Hit(Stream[pos + 1])
  /\ FeedPkt(pos + 1) /\ held' = pos + 1 /\ faults' = faults + 1
  /\ UNCHANGED <<shape, burst, pos, ops, beh>>
SwapB ==
  /\ held # 0 /\ held = pos + 1
  /\ FeedPkt(pos) /\ held' = 0 /\ pos' = pos + 2 /\ UNCHANGED <<shape, burst, faults>>
  /\ ops' = ops \o <<"swap", "swapped">>
  /\ beh' = IF pos' > Total THEN ToJson([shape |-> shape, ops |-> ops']) ELSE ""

Next ==
  IF held # 0 THEN (DupSecond \/ SwapB)
  ELSE IF pos <= Total /\ Hit(Stream[pos]) THEN BurstDrop
  ELSE (Deliver \/ Drop \/ Dup \/ SwapA)
Spec == Init /\ [][Next]_<<pvars, dvars>>

\* B => A: every answer the decoder model can give next is accepted by Level A
BImpliesA ==
  \A p \in 1..Total :
    (p = pos \/ (held = 0 /\ p = pos + 1 /\ pos < Total) \/ p = held) =>
      LET pk == Stream[p]  a == Answer(p)
      IN ENABLED Feed(pk.f, pk.i, pk.n, a.res, a.rf, a.res = "frame" /\ a.ok)

\* shape sets for the configurations (tuples cannot be written in a .cfg file)
ShapesQuick == { <<1,3,1,3,1>>, <<3,3,1,1,3>>, <<2,1,2,2,1>> }
ShapesBurst == { <<3,3,3,3,3,3,3,3,3>>, <<2,2,2,2,2,2,2,2>>, <<1,3,2,3,3,3,2,3,1>> }
ShapesThorough == { <<1,3,1,3,1,1>>, <<3,3,1,1,3,3>>, <<2,1,2,2,1,2>>, <<3,2,3,3,2,1>>, <<1,1,3,3,3,1>> }

\* at the end nothing eligible is still owed, except possibly the very last frame
Settled == (pos > Total /\ held = 0) => owed \subseteq {Len(shape)}
=============================================================================
