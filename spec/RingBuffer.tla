----------------------------- MODULE RingBuffer -----------------------------
(***************************************************************************)
(* Level B (implementation-shaped) model of pkg/ringbuffer.RingBuffer and  *)
(* internal/asyncprocessor.Processor, one action per critical section:     *)
(*                                                                         *)
(*   Push:   lock; slot[wr] occupied ? unlock, return false                *)
(*           : slot[wr] := x; wr := wr+1 mod N; unlock; Broadcast; true    *)
(*   Pull:   loop { lock; closed ? unlock, return false                    *)
(*                  : slot[rd] # nil ? take, rd := rd+1 mod N, unlock      *)
(*                  : cond.Wait (atomically enqueue + unlock); unlock }    *)
(*   Close:  lock; closed := true; clear all slots; unlock; Broadcast      *)
(*   Processor.run:   loop { Pull; run item; error ? OnError, exit }       *)
(*   Processor.Close: cancel; ring.Close; if running then join             *)
(*                                                                         *)
(* Everything between Lock and Unlock is one atomic step (nothing else can *)
(* observe the ring meanwhile); Broadcast is a separate step AFTER the     *)
(* unlock, as in the code, so the wake-up race is explored.                *)
(* sync.Cond.Wait registers the waiter before it unlocks, hence "check     *)
(* and wait" is atomic.                                                    *)
(*                                                                         *)
(* ClosedFirst = TRUE models the code after the fix (Pull tests `closed`   *)
(* before the slot); FALSE models the pinned commit, for which TLC finds   *)
(* the out-of-order execution in about a second.                           *)
(*                                                                         *)
(* The module carries the ghost histories of QueueProp and a refinement    *)
(* mapping; TLC checks  Spec => QA!Spec-style step refinement, QA!QInv,    *)
(* deadlock freedom and the no-lost-wake-up liveness property.             *)
(***************************************************************************)
EXTENDS Naturals, Sequences, FiniteSets, TLC

CONSTANTS N,            \* ring capacity (power of two)
          Producers,    \* set of producer ids
          PerProducer,  \* items pushed by each producer
          FailItem,     \* id of an item whose callback fails, or 0
          ClosedFirst,  \* TRUE: fixed code
          Nil

Ids == {p * 10 + i : p \in Producers, i \in 1..PerProducer}

VARIABLES
  slot, rd, wr, closedB,     \* the ring
  waiters,                   \* processes blocked in cond.Wait
  ppc, pnext,                \* producer: program counter, next item index
  cpc, item,                 \* consumer: program counter, item in hand
  kpc,                       \* closer: program counter
  startedB, errs,
  accepted, executed, lossyB, held \* ghost (held: what the queue holds, oldest first)

bvars == <<slot, rd, wr, closedB, waiters, ppc, pnext, cpc, item, kpc, startedB,
           errs, accepted, executed, lossyB, held>>

Init ==
  /\ slot = [i \in 0..N-1 |-> Nil] /\ rd = 0 /\ wr = 0 /\ closedB = FALSE
  /\ waiters = {}
  /\ ppc = [p \in Producers |-> "idle"] /\ pnext = [p \in Producers |-> 1]
  /\ cpc = "notstarted" /\ item = Nil
  /\ kpc = "idle"
  /\ startedB = FALSE /\ errs = 0
  /\ accepted = <<>> /\ executed = <<>> /\ lossyB = FALSE /\ held = <<>>

\* ---- refinement mapping helpers -------------------------------------------
\* contents of the ring in FIFO order, starting at rd (occupied slots are contiguous
\* as long as RingWellFormed holds)
RECURSIVE Contents(_, _)
Contents(i, n) == IF n = 0 \/ slot[i] = Nil THEN <<>>
                  ELSE <<slot[i]>> \o Contents((i + 1) % N, n - 1)
PendingB == Contents(rd, N)
Occupied == {i \in 0..N-1 : slot[i] # Nil}

\* ---- producers --------------------------------------------------------------
PushCrit(p) ==
  /\ ppc[p] = "idle" /\ pnext[p] <= PerProducer
  /\ LET x == p * 10 + pnext[p] IN
     IF slot[wr] # Nil
     THEN /\ UNCHANGED <<slot, wr, accepted, held>>
          /\ ppc' = ppc                                    \* returns false at once
          /\ pnext' = [pnext EXCEPT ![p] = @ + 1]
     ELSE /\ slot' = [slot EXCEPT ![wr] = x]
          /\ wr' = (wr + 1) % N
          /\ accepted' = Append(accepted, x)
          /\ held' = Append(held, x)
          /\ ppc' = [ppc EXCEPT ![p] = "bcast"]
          /\ pnext' = [pnext EXCEPT ![p] = @ + 1]
  /\ UNCHANGED <<rd, closedB, waiters, cpc, item, kpc, startedB, errs, executed, lossyB>>

PushBroadcast(p) ==
  /\ ppc[p] = "bcast"
  /\ ppc' = [ppc EXCEPT ![p] = "idle"]
  /\ waiters' = {}
  /\ cpc' = IF "consumer" \in waiters THEN "pull" ELSE cpc
  /\ UNCHANGED <<slot, rd, wr, closedB, pnext, item, kpc, startedB, errs,
                 accepted, executed, lossyB, held>>

\* ---- consumer ---------------------------------------------------------------
Start ==
  /\ ~startedB /\ kpc = "idle"          \* Start happens-before Close (API contract)
  /\ startedB' = TRUE /\ cpc' = "pull"
  /\ UNCHANGED <<slot, rd, wr, closedB, waiters, ppc, pnext, item, kpc, errs,
                 accepted, executed, lossyB, held>>

PullSeeClosed ==
  /\ cpc' = "exited"
  /\ UNCHANGED <<slot, rd, item, waiters, held>>
PullTake ==
  /\ item' = slot[rd]
  /\ slot' = [slot EXCEPT ![rd] = Nil]
  /\ rd' = (rd + 1) % N
  /\ cpc' = "took"
  /\ held' = Tail(held)
  /\ UNCHANGED waiters
PullWait ==
  /\ waiters' = waiters \cup {"consumer"}
  /\ cpc' = "waiting"
  /\ UNCHANGED <<slot, rd, item, held>>

PullCrit ==
  /\ cpc = "pull"
  /\ IF ClosedFirst
     THEN IF closedB THEN PullSeeClosed
          ELSE IF slot[rd] # Nil THEN PullTake ELSE PullWait
     ELSE IF slot[rd] # Nil THEN PullTake
          ELSE IF closedB THEN PullSeeClosed ELSE PullWait
  /\ UNCHANGED <<wr, closedB, ppc, pnext, kpc, startedB, errs, accepted, executed, lossyB>>

ExecBeginB ==
  /\ cpc = "took" /\ cpc' = "exec"
  /\ UNCHANGED <<slot, rd, wr, closedB, waiters, ppc, pnext, item, kpc, startedB,
                 errs, accepted, executed, lossyB, held>>

ExecEndB ==
  /\ cpc = "exec"
  /\ executed' = Append(executed, item)
  /\ cpc' = IF item = FailItem THEN "err" ELSE "pull"
  /\ item' = Nil
  /\ UNCHANGED <<slot, rd, wr, closedB, waiters, ppc, pnext, kpc, startedB, errs,
                 accepted, lossyB, held>>

OnErrorB ==
  /\ cpc = "err"
  /\ errs' = errs + 1 /\ cpc' = "exited"
  /\ UNCHANGED <<slot, rd, wr, closedB, waiters, ppc, pnext, item, kpc, startedB,
                 accepted, executed, lossyB, held>>

\* ---- closer (Processor.Close) -------------------------------------------------
CloseCrit ==
  /\ kpc = "idle"
  /\ closedB' = TRUE
  /\ slot' = [i \in 0..N-1 |-> Nil]
  /\ lossyB' = (lossyB \/ Occupied # {})
  /\ held' = <<>>
  /\ kpc' = "bcast"
  /\ UNCHANGED <<rd, wr, waiters, ppc, pnext, cpc, item, startedB, errs, accepted, executed>>

CloseBroadcast ==
  /\ kpc = "bcast"
  /\ kpc' = "join"
  /\ waiters' = {}
  /\ cpc' = IF "consumer" \in waiters THEN "pull" ELSE cpc
  /\ UNCHANGED <<slot, rd, wr, closedB, ppc, pnext, item, startedB, errs,
                 accepted, executed, lossyB, held>>

CloseJoin ==
  /\ kpc = "join"
  /\ startedB => cpc = "exited"
  /\ kpc' = "returned"
  /\ UNCHANGED <<slot, rd, wr, closedB, waiters, ppc, pnext, cpc, item, startedB,
                 errs, accepted, executed, lossyB, held>>

Next ==
  \/ \E p \in Producers : PushCrit(p) \/ PushBroadcast(p)
  \/ Start \/ PullCrit \/ ExecBeginB \/ ExecEndB \/ OnErrorB
  \/ CloseCrit \/ CloseBroadcast \/ CloseJoin

ProducersDone == \A p \in Producers : ppc[p] = "idle" /\ pnext[p] > PerProducer
Terminated == ProducersDone /\ kpc = "returned"
\* termination is not a deadlock
NextOrDone == Next \/ (Terminated /\ UNCHANGED bvars)

Fairness ==
  /\ \A p \in Producers : WF_bvars(PushBroadcast(p))
  /\ WF_bvars(PullCrit) /\ WF_bvars(ExecBeginB) /\ WF_bvars(ExecEndB) /\ WF_bvars(OnErrorB)
  /\ WF_bvars(CloseBroadcast) /\ WF_bvars(CloseJoin)

Spec == Init /\ [][NextOrDone]_bvars /\ Fairness

-----------------------------------------------------------------------------
\* Refinement mapping into QueueProp (Level A)
QA == INSTANCE QueueProp WITH
        cap      <- N,
        pending  <- held,
        inFlight <- item,
        running  <- IF cpc = "exec" THEN item ELSE Nil,
        started  <- startedB,
        waiting  <- cpc = "waiting",
        stopped  <- cpc = "exited",
        failed   <- cpc = "err" \/ errs > 0,
        errCount <- errs,
        closed   <- closedB,
        closeRet <- kpc = "returned",
        lossy    <- lossyB

\* while the ring is open the occupied slots are exactly the contiguous run starting
\* at rd, and they hold what the abstract queue holds (Close leaves rd and wr apart:
\* harmless once Pull tests `closed` first, and Reset realigns them)
RingWellFormed == ~closedB => (Len(PendingB) = Cardinality(Occupied) /\ PendingB = held)

AInv == QA!QInv /\ RingWellFormed

\* every step of B is a step of A (or leaves A's variables unchanged)
ANext ==
  \/ \E x \in Ids : QA!PushOk(x) \/ QA!PushFull(x) \/ QA!Take(x) \/ QA!ExecBegin(x)
                    \/ QA!ExecEnd(x, TRUE) \/ QA!ExecEnd(x, FALSE)
  \/ QA!Start \/ QA!Wait \/ QA!Wake \/ QA!SeeClosed \/ QA!OnError \/ QA!CloseQueue \/ QA!CloseReturn
Refines == [][ANext]_(QA!qvars)

\* no lost wake-up: a waiting consumer is woken when there is an item or the ring closed
NoLostWakeup == (cpc = "waiting" /\ (slot[rd] # Nil \/ closedB)) ~> (cpc # "waiting")
\* Close returns
CloseReturns == (kpc = "bcast") ~> (kpc = "returned")
\* with an open, healthy queue everything accepted is eventually executed
Drains == <>[](  (ProducersDone /\ startedB /\ ~closedB /\ errs = 0 /\ cpc # "err")
                 => (executed = accepted \/ ENABLED Next) )
=============================================================================
