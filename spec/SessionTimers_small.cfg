SPECIFICATION Spec
CONSTANTS
  Idle = 10
  Period = 10
  Jitter = 3
  Horizon = 200
  Live = TRUE
INVARIANT LiveNeverExpired
CHECK_DEADLOCK FALSE
