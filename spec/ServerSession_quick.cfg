SPECIFICATION Spec
CONSTANTS
  MaxReq = 3
  McastEnabled = FALSE
  Protos <- ProtosUT
  UDPEnabled = TRUE
  HasRecord = TRUE
  HasPlay = TRUE
  HasPause = TRUE
  Tracks = {0, 1}
  MethodSet <- Methods
  ShSet <- AllSh
INVARIANT BImpliesA
INVARIANT Agreement
CHECK_DEADLOCK FALSE
