------------------------------ MODULE AuthProp ------------------------------
(***************************************************************************)
(* Level A (property) specification for C10: authentication.               *)
(*                                                                         *)
(* Verify(sent, pert, enabledHas, accepted): an authorization of scheme    *)
(* `sent` ("basic", "md5", "sha256") was produced by the client side from  *)
(* the right credentials for the server's challenge and then perturbed in  *)
(* exactly one way (`pert`), or not at all ("none"); enabledHas tells      *)
(* whether the scheme is among the server's enabled methods; accepted is   *)
(* what the verifier answered.                                             *)
(*                                                                         *)
(* A Basic authorization is a function of (user, password) only; a Digest  *)
(* one of (user, realm, password, nonce, method, URL, algorithm).  Only a  *)
(* perturbation of something the authorization depends on must be refused. *)
(* "setup_base": the documented compatibility rule - a SETUP request for a *)
(* track URL may carry an authorization computed for the stream's base URL *)
(* ("setup_other": a SETUP whose authorization was computed for any other  *)
(* URL - another stream, a shorter prefix of the base URL - is refused).   *)
(*                                                                         *)
(* Wire(creds, status, kept, sent): a request on a real connection         *)
(* carrying no / wrong / right credentials while the application reports   *)
(* an authentication failure for the first two; or an authorization that   *)
(* was accepted, replayed on another request of the same connection.       *)
(***************************************************************************)
EXTENDS Naturals

VARIABLES nverify, nwire          \* counters only (the checks are stateless)
authvars == <<nverify, nwire>>

AInitAuth == nverify = 0 /\ nwire = 0
AResetAuth == nverify' = 0 /\ nwire' = 0

Schemes == {"basic", "md5", "sha256"}
Perts == {"none", "user", "pass", "realm", "nonce", "method", "alg", "noalg", "url",
          "setup_base", "base_nonsetup", "setup_other"}

\* perturbations that change something the authorization was computed from
\* ("noalg": the algorithm parameter is left out of a Digest authorization, which then reads as
\* MD5 (RFC 2617): an MD5 authorization is unaffected, a SHA-256 one no longer matches)
Affects(sent, pert) ==
  IF sent = "basic" THEN pert \in {"user", "pass"}
  ELSE pert \in {"user", "pass", "realm", "nonce", "method", "alg", "url", "base_nonsetup", "setup_other"}
       \/ (pert = "noalg" /\ sent = "sha256")

MustAccept(sent, pert, enabledHas) == enabledHas /\ ~Affects(sent, pert)

Verify(sent, pert, enabledHas, accepted) ==
  /\ sent \in Schemes /\ pert \in Perts
  /\ accepted = MustAccept(sent, pert, enabledHas)     \* complete AND sound
  /\ nverify' = nverify + 1 /\ UNCHANGED nwire

\* sent: the scheme of the authorization (only looked at for replays).
\* replay_url / replay_method: an authorization accepted for one request, attached unchanged to a
\* request of the same connection with another URL / another method. A Digest authorization was
\* computed for the first request: these are wrong credentials. A Basic one depends on neither.
Wire(creds, status, kept, sent) ==
  /\ CASE creds = "none"  -> status = 401 /\ kept      \* challenged, connection kept
       [] creds = "wrong" -> ~kept                     \* connection ended
       [] creds = "right" -> status >= 200 /\ status <= 299 /\ kept
       [] creds \in {"replay_url", "replay_method"} ->
            IF sent = "basic" THEN kept /\ status # 401 ELSE ~kept
       [] OTHER -> FALSE
  /\ nwire' = nwire + 1 /\ UNCHANGED nverify
=============================================================================
