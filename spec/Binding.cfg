SPECIFICATION Spec
INVARIANT DgramOK
CHECK_DEADLOCK FALSE
