SPECIFICATION Spec
CONSTANTS
  Shapes <- ShapesBurst
  MaxFaults = 0
  MaxBurst = 6
INVARIANT BImpliesA
INVARIANT Settled
CHECK_DEADLOCK FALSE
