---------------------------- MODULE DeliveryTrace ----------------------------
EXTENDS TraceIO, DeliveryProp
ResetAct == DReset(Ev.nr, Ev.nm, Ev.rel)
StepAct ==
  \/ Is("wbeg")    /\ WBeg(Ev.k, Ev.id)
  \/ Is("wend")    /\ WEnd(Ev.k, Ev.id)
  \/ Is("wrefused") /\ WRefused(Ev.k, Ev.id)
  \/ Is("dlv")     /\ Dlv(Ev.r, Ev.k, Ev.id, Ev.same)
  \/ Is("play")    /\ PlayRet(Ev.r)
  \/ Is("stop")    /\ StopCall(Ev.r)
  \/ Is("werr")    /\ WErr(Ev.r)
  \/ Is("barrier") /\ Barrier(Ev.r)
  \/ Is("ssrc")    /\ Ssrc(Ev.r, Ev.k, Ev.same)
  \/ Is("end")     /\ UNCHANGED dvars
Next == TraceNext(ResetAct, StepAct, UNCHANGED dvars)
Init == TraceInit /\ DInit
Spec == Init /\ [][Next]_<<tvars, dvars>>
=============================================================================
