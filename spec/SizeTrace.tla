------------------------------ MODULE SizeTrace ------------------------------
EXTENDS TraceIO, SizeProp
ResetAct == ZReset
StepAct ==
  \/ Is("startcfg") /\ StartCfg(Ev.obj, Ev.maxps, Ev.wq, Ev.accepted)
  \/ Is("write")    /\ Write(Ev.entry, Ev.kind, Ev.secure, Ev.max, Ev.plain, Ev.failed, Ev.nwire, Ev.maxwire)
  \/ Is("end")      /\ UNCHANGED zvars
Next == TraceNext(ResetAct, StepAct, UNCHANGED zvars)
Init == TraceInit /\ ZInit
Spec == Init /\ [][Next]_<<tvars, zvars>>
=============================================================================
