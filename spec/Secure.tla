-------------------------------- MODULE Secure --------------------------------
(***************************************************************************)
(* Level B symbolic model for C17: SRTP packet index synchronisation       *)
(* between a sender and receivers that join at arbitrary moments, with the *)
(* roll-over counter (ROC) carried by the MIKEY message of the key         *)
(* exchange, in a sequence-number ring of M values (half = M/2).           *)
(*                                                                         *)
(*   sender:   index = roc * M + seq, advances by one per packet           *)
(*   MIKEY:    (key, ssrc, roc at the time of SETUP)                       *)
(*   receiver: RFC 3711 3.3.1 index estimation from (s_l, roc) and the     *)
(*             packet's sequence number; a packet authenticates iff the    *)
(*             estimated index equals the sender's (symbolic crypto: the   *)
(*             tag is the tuple <<key, index, payload>>)                   *)
(*   network:  drops fewer than half a ring in a row; may alter a packet   *)
(* TLC checks for every start position, every join moment (before / after  *)
(* wraps) and every loss pattern within the bound that an in-sync receiver *)
(* accepts exactly the untampered packets of its key (B => A: what is      *)
(* delivered was sent, intact and untampered), and exports the scenarios   *)
(* (start, packets before join, packets after, tamper position).           *)
(* Assumption (RFC 3711's own): no wrap between the key exchange and the   *)
(* first packet the joiner receives.                                       *)
(***************************************************************************)
EXTENDS Naturals, Integers, Sequences, TLC, Json

CONSTANTS M, MaxPackets, MaxGap

Half == M \div 2

VARIABLES sroc, sseq,        \* sender
          joined, rroc, sl,  \* receiver: joined?, its roc, highest sequence number
          gap,               \* packets dropped in a row
          npk, accepted, rejectedBad, beh, start, joinAt, tamperAt,
          priorHere, prior,  \* an earlier receiver watched packets 0..prior-1 and left before the join
          descAt             \* packets written before the receiver fetched the description (-1: not yet)
vars == <<sroc, sseq, joined, rroc, sl, gap, npk, accepted, rejectedBad, beh, start, joinAt, tamperAt, priorHere, prior, descAt>>

Init ==
  /\ start \in 0..(M - 1) /\ sseq = start /\ sroc = 0
  /\ joined = FALSE /\ rroc = 0 /\ sl = 0 /\ gap = 0 /\ npk = 0
  /\ accepted = 0 /\ rejectedBad = 0 /\ beh = "" /\ joinAt = 0 - 1 /\ tamperAt = 0 - 1
  /\ priorHere \in BOOLEAN /\ prior = 0 /\ descAt = 0 - 1

\* RFC 3711 3.3.1
Guess(seq) ==
  IF sl < Half
  THEN IF seq - sl > Half THEN rroc - 1 ELSE rroc
  ELSE IF sl - Half > seq THEN rroc + 1 ELSE rroc

AdvanceSender == /\ sseq' = (sseq + 1) % M
                 /\ sroc' = IF sseq = M - 1 THEN sroc + 1 ELSE sroc

Export == ToJson([start |-> start, join |-> joinAt, n |-> npk', tamper |-> tamperAt', prior |-> prior, desc |-> descAt])

\* the earlier receiver leaves (the sender's index does not depend on who listens: the
\* packets written while nobody listens still advance it)
PriorLeave == /\ priorHere /\ npk > 0 /\ priorHere' = FALSE /\ prior' = npk
              /\ UNCHANGED <<sroc, sseq, joined, rroc, sl, gap, npk, accepted, rejectedBad, beh, start, joinAt, tamperAt, descAt>>

\* the receiver fetches the description (whose key-management data is a snapshot of that moment);
\* the stream goes on before it sets its session up
Describe == /\ ~joined /\ descAt < 0 /\ descAt' = npk
            /\ UNCHANGED <<sroc, sseq, joined, rroc, sl, gap, npk, accepted, rejectedBad, beh, start, joinAt, tamperAt, priorHere, prior>>

\* the receiver joins: the key exchange (the SETUP response) hands it the sender's current ROC
Join == /\ ~joined /\ ~priorHere /\ descAt >= 0 /\ joined' = TRUE /\ rroc' = sroc /\ sl' = sseq /\ joinAt' = npk
        /\ UNCHANGED <<sroc, sseq, gap, npk, accepted, rejectedBad, beh, start, tamperAt, priorHere, prior, descAt>>

Deliver(tamper) ==
  /\ npk < MaxPackets
  /\ tamper => (tamperAt < 0 /\ joined)
  /\ AdvanceSender
  /\ npk' = npk + 1 /\ gap' = 0
  /\ tamperAt' = IF tamper THEN npk ELSE tamperAt
  /\ IF ~joined THEN UNCHANGED <<rroc, sl, accepted, rejectedBad>>
     ELSE LET v == Guess(sseq)
              authentic == (v = sroc) /\ ~tamper           \* tag = <<key, index, payload>>
          IN IF authentic
             THEN /\ accepted' = accepted + 1 /\ UNCHANGED rejectedBad
                  \* update s_l / roc as RFC 3711 says
                  /\ IF v = rroc THEN (sl' = IF sseq > sl THEN sseq ELSE sl) /\ UNCHANGED rroc
                     ELSE IF v = rroc + 1 THEN sl' = sseq /\ rroc' = v
                     ELSE UNCHANGED <<sl, rroc>>
             ELSE /\ rejectedBad' = rejectedBad + (IF tamper THEN 0 ELSE 1)
                  /\ UNCHANGED <<accepted, rroc, sl>>
  /\ beh' = Export
  /\ UNCHANGED <<joined, start, joinAt, priorHere, prior, descAt>>

Drop == /\ npk < MaxPackets /\ gap < MaxGap
        /\ AdvanceSender /\ npk' = npk + 1 /\ gap' = gap + 1
        /\ UNCHANGED <<joined, rroc, sl, accepted, rejectedBad, start, joinAt, tamperAt, priorHere, prior, descAt>>
        /\ beh' = Export

Next == Join \/ Describe \/ PriorLeave \/ Deliver(FALSE) \/ Deliver(TRUE) \/ Drop
Spec == Init /\ [][Next]_vars

\* an in-sync receiver never refuses an authentic packet of its key
NoFalseReject == rejectedBad = 0
\* its view of the ROC follows the sender's
InSync == joined => (rroc = sroc \/ (rroc + 1 = sroc /\ sseq < Half))
=============================================================================
