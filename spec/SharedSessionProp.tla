------------------------- MODULE SharedSessionProp -------------------------
(***************************************************************************)
(* Level A (property) specification for C02, second part: ONE session that *)
(* is used by SEVERAL control connections.  The statement's clause          *)
(*                                                                         *)
(*   "a session ends exactly once - on TEARDOWN, or when its last          *)
(*    connection goes away unless it is streaming over UDP"                *)
(*                                                                         *)
(* speaks about the set of the session's connections; SessionProp only     *)
(* knows one.  Here a connection is                                        *)
(*   a TOUCHER once it has sent a request that carries the session's id    *)
(*             (or created the session), whatever the answer,              *)
(*   a HOLDER  once such a request was answered 2xx, until its own         *)
(*             TEARDOWN is answered 2xx,                                   *)
(*   LEAVING   once the peer closed its socket or an answer was an error   *)
(*             (after which the server closes the connection),             *)
(*   GONE      once the server notified its end (OnConnClose).             *)
(* The two readings bracket the statement from both sides, so that neither *)
(* claims more than it says:                                               *)
(*   P1 (not too early)  the session ends only by TEARDOWN, at shutdown,   *)
(*      or when every HOLDER is leaving / gone - never while streaming     *)
(*      over UDP (time-outs are not reached by these conversations);       *)
(*   P2 (not too late)   once every TOUCHER is gone and the session is not *)
(*      streaming over UDP, the session has ended when the harness has     *)
(*      waited (Settle / Cleanup);                                         *)
(*   P3 (innocent connections)  the server ends a connection only when it  *)
(*      is leaving, or belongs to a session that ends, or at shutdown.     *)
(* The per-request rules of SessionProp (one response, CSeq, RFC successor *)
(* state, illegal => error and unchanged) hold for every connection.       *)
(***************************************************************************)
EXTENDS Naturals, Sequences, FiniteSets, RFC2326

VARIABLES mstate,     \* RFC state of the session as the answers imply it ("none" before it exists)
          mudp,       \* its transport is UDP
          mopened, mclosed,   \* OnSessionOpen / OnSessionClose notifications
          touch, hold, leaving, gone,   \* sets of connection ids
          mtorn,      \* a TEARDOWN was answered 2xx
          mcleanup,   \* the harness has started tearing the scenario down
          mpend,      \* request in flight: [c, m, s0] or MNoReq
          presumed    \* an end seen while a request is in flight was justified only by what
                      \* that request's answer must then turn out to be: "no" | "err" | "td"

mvars == <<mstate, mudp, mopened, mclosed, touch, hold, leaving, gone, mtorn, mcleanup, mpend, presumed>>

MNoReq == [c |-> 0, m |-> "-", s0 |-> "-"]

MInit == /\ mstate = "none" /\ mudp = FALSE /\ mopened = 0 /\ mclosed = 0
         /\ touch = {} /\ hold = {} /\ leaving = {} /\ gone = {}
         /\ mtorn = FALSE /\ mcleanup = FALSE /\ mpend = MNoReq /\ presumed = "no"
MReset == /\ mstate' = "none" /\ mudp' = FALSE /\ mopened' = 0 /\ mclosed' = 0
          /\ touch' = {} /\ hold' = {} /\ leaving' = {} /\ gone' = {}
          /\ mtorn' = FALSE /\ mcleanup' = FALSE /\ mpend' = MNoReq /\ presumed' = "no"

MStreaming == mstate \in {"play", "record"}
Alive == mopened > mclosed
TearPending == mpend # MNoReq /\ mpend.m = "TEARDOWN"

\* Notifications are asynchronous: the end of a connection or of the session that an answer
\* causes (an error answer is followed by the connection's end; a TEARDOWN by the session's)
\* can be notified before the harness has read that answer.  Such an end is accepted
\* provisionally and the answer must then be what justifies it (`presumed`).
Out == leaving \cup gone
PendC == IF mpend = MNoReq THEN {} ELSE {mpend.c}
SU == MStreaming /\ mudp
Worse(a, b) == IF a = "td" \/ b = "td" THEN "td" ELSE IF a = "err" \/ b = "err" THEN "err" ELSE "no"

\* The request goes out on connection c.  sid: it carries the session's id.  It concerns the
\* session when it carries the id, when it creates the session, or when the connection is
\* already paired with the session (the id is optional then: SETUP after ANNOUNCE, whose
\* answer does not carry it).  Anything else is a connection-level request (`foreign`).
\* st0 is ServerSession.State() at that moment.
MReqBegin(c, m, st0, sid) ==
  /\ mpend = MNoReq
  /\ c \notin gone
  /\ (Alive /\ ~mtorn) => st0 = mstate
  /\ LET mine == sid \/ mopened = 0 \/ c \in touch IN
     /\ mpend' = [c |-> c, m |-> IF mine THEN m ELSE "foreign", s0 |-> mstate]
     /\ touch' = IF mine THEN touch \cup {c} ELSE touch
  /\ presumed' = "no"
  /\ UNCHANGED <<mstate, mudp, mopened, mclosed, hold, leaving, gone, mtorn, mcleanup>>

\* the answer to a connection-level request: one response, nothing else is claimed
MReqEndForeign(c, nresp, cseqOk, status) ==
  /\ mpend # MNoReq /\ mpend.c = c /\ mpend.m = "foreign"
  /\ nresp = 1 /\ cseqOk
  /\ (presumed # "no") => status >= 400
  /\ presumed' = "no"
  /\ leaving' = IF status >= 400 THEN leaving \cup {c} ELSE leaving
  /\ mpend' = MNoReq
  /\ UNCHANGED <<mstate, mudp, mopened, mclosed, touch, hold, gone, mtorn, mcleanup>>

\* The answer has been read.  The session may have ended in between only through this very
\* TEARDOWN (see MSessClose), so the rules refer to the state when the request went out.
MReqEnd(c, m, nresp, cseqOk, status, st1, isUdp) ==
  /\ mpend # MNoReq /\ mpend.c = c /\ mpend.m = m
  /\ nresp = 1 /\ cseqOk
  /\ (presumed = "err") => (status >= 400 \/ (m = "TEARDOWN" /\ Ok(status)))
  /\ (presumed = "td") => (m = "TEARDOWN" /\ Ok(status))
  /\ presumed' = "no"
  /\ LET s0 == mpend.s0 IN
     /\ IF m = "TEARDOWN" /\ Ok(status) THEN TRUE          \* the session object is going away
        ELSE IF s0 # "none" /\ Illegal(s0, m) THEN status >= 400 /\ st1 = s0
        ELSE IF Ok(status) /\ HasSucc(s0, m) THEN st1 = Succ(s0, m)
        ELSE IF s0 = "none" THEN st1 \in {"none", "initial"}
        ELSE st1 = s0
     /\ mstate' = IF m = "TEARDOWN" /\ Ok(status) THEN mstate ELSE st1
     /\ mudp' = IF m = "SETUP" /\ Ok(status) THEN isUdp ELSE mudp
  /\ mtorn' = (mtorn \/ (m = "TEARDOWN" /\ Ok(status)))
  /\ hold' = IF m = "TEARDOWN" /\ Ok(status) THEN hold \ {c}
             ELSE IF Ok(status) THEN hold \cup {c} ELSE hold
  /\ leaving' = IF status >= 400 THEN leaving \cup {c} ELSE leaving
  /\ mpend' = MNoReq
  /\ UNCHANGED <<mopened, mclosed, touch, gone, mcleanup>>

MSessOpen ==
  /\ mopened = 0                                         \* one session per conversation
  /\ mopened' = 1
  /\ UNCHANGED <<mstate, mudp, mclosed, touch, hold, leaving, gone, mtorn, mcleanup, mpend, presumed>>

\* P1: the reasons for which a session may end
MSessClose ==
  /\ Alive
  /\ LET sure == mtorn \/ mcleanup \/ (~SU /\ hold \subseteq Out)
         err  == ~SU /\ hold \subseteq (Out \cup PendC)
     IN /\ sure \/ err \/ TearPending
        /\ presumed' = IF sure THEN presumed ELSE IF err THEN Worse(presumed, "err") ELSE "td"
  /\ mclosed' = mclosed + 1
  /\ UNCHANGED <<mstate, mudp, mopened, touch, hold, leaving, gone, mtorn, mcleanup, mpend>>

\* the peer closes its socket
MPeerClose(c) ==
  /\ leaving' = leaving \cup {c}
  /\ UNCHANGED <<mstate, mudp, mopened, mclosed, touch, hold, gone, mtorn, mcleanup, mpend, presumed>>

\* P3: OnConnClose - the reasons for which the server may end a connection.  A session that
\* ends closes its connections BEFORE its own close notification, hence "may end" here.
MConnClose(c) ==
  /\ c \notin gone
  /\ LET sure == \/ c \in leaving \/ mcleanup
                 \/ (c \in touch /\ (mtorn \/ ~Alive \/ (~SU /\ hold \subseteq Out)))
         err  == c \in PendC \/ (c \in touch /\ ~SU /\ hold \subseteq (Out \cup PendC))
         td   == c \in touch /\ TearPending
     IN /\ sure \/ err \/ td
        /\ presumed' = IF sure THEN presumed ELSE IF err THEN Worse(presumed, "err") ELSE "td"
  /\ gone' = gone \cup {c}
  /\ UNCHANGED <<mstate, mudp, mopened, mclosed, touch, hold, leaving, mtorn, mcleanup, mpend>>

\* P2: what must be true once the harness has waited (bounded) for pending notifications
Settled ==
  /\ (Alive /\ touch # {} /\ touch \subseteq gone /\ ~(MStreaming /\ mudp)) => FALSE
  /\ mtorn => ~Alive                                     \* a torn-down session has ended
  /\ mpend = MNoReq

MSettle == Settled /\ UNCHANGED mvars

MCleanup ==
  /\ Settled
  /\ mcleanup' = TRUE
  /\ UNCHANGED <<mstate, mudp, mopened, mclosed, touch, hold, leaving, gone, mtorn, mpend, presumed>>

MEnd == mcleanup /\ mclosed = mopened /\ UNCHANGED mvars   \* every open has exactly one close

MInv == mclosed <= mopened /\ mopened <= 1
=============================================================================
