------------------------------ MODULE TunnelPair ------------------------------
(***************************************************************************)
(* System specification beyond the listed properties: pairing of the two   *)
(* halves of an RTSP-over-HTTP tunnel in Server.run (chHandleHTTPChannel,  *)
(* httpReadChannels, findHTTPReadChannel).                                 *)
(*   Get(c, k)   connection c sent a tunnel GET with session cookie k: it  *)
(*               is answered 200 and parked as a read channel              *)
(*   Post(c, k, paired)  connection c sent a tunnel POST with cookie k;    *)
(*               paired = an RTSP conversation through (POST half, GET     *)
(*               half) works afterwards                                    *)
(*   Gone(c)     connection c ended (parked GET halves are forgotten)      *)
(* Level A: a POST is paired iff a parked, not yet consumed GET with the   *)
(* same cookie (and address) exists; pairing consumes it: every GET half   *)
(* serves at most one tunnel.                                              *)
(* The same module is the Level B model: TLC enumerates all sequences of   *)
(* Get / Post / Gone over 3 connections and 2 cookies up to MaxLen and     *)
(* exports them (with the predicted `paired`) for replay on a real server. *)
(***************************************************************************)
EXTENDS Naturals, Sequences, FiniteSets, TLC, Json

CONSTANTS ConnIds, Cookies, MaxLen

VARIABLES parked,     \* conn -> cookie of its registered (parked) GET half ("" : none)
          pending,    \* conn -> cookie of a GET half that was answered 200 but is not registered yet
          used,       \* connections that already played a part
          hist, beh
tpv == <<parked, pending, used, hist, beh>>

None == [c \in ConnIds |-> ""]
TPairInit == parked = None /\ pending = None /\ used = {} /\ hist = <<>> /\ beh = ""
TPairReset == parked' = None /\ pending' = None /\ used' = {} /\ UNCHANGED <<hist, beh>>

Candidates(k) == {c \in ConnIds : parked[c] = k}

\* The code answers the GET (200) in the connection's reader goroutine and only then hands
\* the connection to Server.run for registration (serverConnReader.handleTunneling writes the
\* response before calling handleHTTPChannel): two steps, and a POST of another connection
\* may be handled in between, in which case it finds nothing. Deliberately modelled as is.
GetAnswer(c, k) ==
  /\ c \notin used /\ k # ""
  /\ pending' = [pending EXCEPT ![c] = k] /\ used' = used \cup {c} /\ UNCHANGED parked
Register(c) ==
  /\ pending[c] # ""
  /\ parked' = [parked EXCEPT ![c] = pending[c]] /\ pending' = [pending EXCEPT ![c] = ""]
  /\ UNCHANGED used
\* answered and registered in one go (what a client that waits a little observes)
Get(c, k) ==
  /\ c \notin used /\ k # ""
  /\ parked' = [parked EXCEPT ![c] = k] /\ used' = used \cup {c} /\ UNCHANGED pending

Post(c, k, paired) ==
  /\ c \notin used
  /\ paired = (Candidates(k) # {})
  /\ used' = used \cup {c}
  /\ IF paired
     THEN \E g \in Candidates(k) : parked' = [parked EXCEPT ![g] = ""]   \* consumed (which one is open)
     ELSE UNCHANGED parked
  /\ UNCHANGED pending

\* the same when registrations are unobservable: an answered half may or may not be registered
\* yet, so a successful POST consumes a registered or an answered half with that cookie, and a
\* failed POST is possible as long as no half with that cookie is known to be registered.
\* (Halves stay `pending` until consumed: the least commitment that explains the observation.)
PostAfterRegs(c, k, paired) ==
  LET cand == {g \in ConnIds : parked[g] = k \/ pending[g] = k} IN
  /\ c \notin used
  /\ used' = used \cup {c}
  /\ IF paired
     THEN \E g \in cand : /\ parked' = [parked EXCEPT ![g] = ""]
                          /\ pending' = [pending EXCEPT ![g] = ""]
     ELSE /\ Candidates(k) = {}
          /\ UNCHANGED <<parked, pending>>

Gone(c) == c \in used /\ parked' = [parked EXCEPT ![c] = ""] /\ pending' = [pending EXCEPT ![c] = ""] /\ UNCHANGED used

\* ---- enumeration (Level B = the same decision procedure) -----------------------------
Step ==
  /\ Len(hist) < MaxLen
  /\ \E c \in ConnIds :
       \/ \E k \in Cookies : Get(c, k) /\ hist' = Append(hist, [op |-> "get", c |-> c, k |-> k, paired |-> FALSE])
       \/ \E k \in Cookies : LET p == Candidates(k) # {} IN
             Post(c, k, p) /\ hist' = Append(hist, [op |-> "post", c |-> c, k |-> k, paired |-> p])
  /\ beh' = ToJson([ops |-> hist'])
Spec == TPairInit /\ [][Step]_tpv

\* a GET half never serves two tunnels; at most one parked half per (cookie) candidate set shrinks on pairing
AtMostOnce == \A c \in ConnIds : (parked[c] # "" \/ pending[c] # "") => c \in used
=============================================================================
