SPECIFICATION Spec
CONSTANTS
  Conns = {1, 2, 3}
  MaxSteps = 4
  Protos <- ProtosUT
  LaterTracks = {1}
  MethodSetM <- AllMethodsM
  LinkOnFail = TRUE
INVARIANT BImpliesA
INVARIANT Agreement
INVARIANT Linked
CHECK_DEADLOCK FALSE
