------------------------------- MODULE SDPProp -------------------------------
(***************************************************************************)
(* Level A (property) specification for C05: stream descriptions and SDP.  *)
(*   RoundTrip(eq, idem, panicked): a description built from supported     *)
(*       medias / formats with valid parameters was marshalled to SDP and  *)
(*       parsed back by the library's own parser; eq = equal description   *)
(*       (title, medias in order with type, id, back-channel flag, profile,*)
(*       control, key-management data, formats with payload type, clock    *)
(*       rate, rtpmap, parameters); idem = marshalling the parsed value    *)
(*       and parsing again gives the same value.                           *)
(*   Parse(accepted, stable, panicked): some SDP text was parsed; if it    *)
(*       was accepted, marshal + parse again gives the same value (stable).*)
(***************************************************************************)
EXTENDS Naturals
VARIABLES nrt, np
sdpvars == <<nrt, np>>
SInitSDP == nrt = 0 /\ np = 0
SResetSDP == nrt' = 0 /\ np' = 0
RoundTrip(eq, idem, panicked) == ~panicked /\ eq /\ idem /\ nrt' = nrt + 1 /\ UNCHANGED np
Parse(accepted, stable, panicked) == ~panicked /\ (accepted => stable) /\ np' = np + 1 /\ UNCHANGED nrt
=============================================================================
