------------------------------ MODULE SDPLines ------------------------------
(***************************************************************************)
(* Level B model of the SDP reader's line automaton                        *)
(* (pkg/sdpunmarshaler.Unmarshal): four states - initial, session, media,  *)
(* time description - driven by the key letter of each line.               *)
(*   initial : v -> session; anything else is handled as a session line    *)
(*   session : o s i u e p c b z k a stay; t -> timeDesc; m -> media;      *)
(*             anything else: error                                        *)
(*   timeDesc: r stays; anything else is handled as a session line         *)
(*   media   : m i c b k a stay; anything else: error                      *)
(* TLC enumerates every key sequence up to MaxLen, predicts accept/reject  *)
(* and, for every "a" line, the section it lands in (0 = session level,    *)
(* n = n-th media); the sequences are exported, concretised with valid     *)
(* values and parsed by the real reader.  Checked on the model: the        *)
(* automaton never gets stuck without a verdict, attributes after the      *)
(* first m line never land at session level.                               *)
(***************************************************************************)
EXTENDS Naturals, Sequences, TLC, Json

CONSTANTS MaxLen, Keys

VARIABLES state, medias, ok, lines, attrs, beh
vars == <<state, medias, ok, lines, attrs, beh>>

SessionKeys == {"o", "s", "i", "u", "e", "p", "c", "b", "z", "k", "a"}
MediaKeys == {"i", "c", "b", "k", "a"}

\* one line: new [state, medias, ok, attr] (attr: section an "a" line lands in, or -1)
SessionLine(k, st, md) ==
  IF k \in SessionKeys THEN [st |-> "session", md |-> md, ok |-> TRUE, at |-> IF k = "a" THEN 0 ELSE 0 - 1]
  ELSE IF k = "t" THEN [st |-> "timeDesc", md |-> md, ok |-> TRUE, at |-> 0 - 1]
  ELSE IF k = "m" THEN [st |-> "media", md |-> md + 1, ok |-> TRUE, at |-> 0 - 1]
  ELSE [st |-> st, md |-> md, ok |-> FALSE, at |-> 0 - 1]

Line(k, st, md) ==
  CASE st = "initial" -> IF k = "v" THEN [st |-> "session", md |-> md, ok |-> TRUE, at |-> 0 - 1]
                         ELSE SessionLine(k, st, md)
    [] st = "session" -> SessionLine(k, st, md)
    [] st = "timeDesc" -> IF k = "r" THEN [st |-> "timeDesc", md |-> md, ok |-> TRUE, at |-> 0 - 1]
                          ELSE SessionLine(k, st, md)
    [] st = "media" -> IF k = "m" THEN [st |-> "media", md |-> md + 1, ok |-> TRUE, at |-> 0 - 1]
                       ELSE IF k \in MediaKeys THEN [st |-> "media", md |-> md, ok |-> TRUE,
                                                     at |-> IF k = "a" THEN md ELSE 0 - 1]
                       ELSE [st |-> st, md |-> md, ok |-> FALSE, at |-> 0 - 1]

Init == state = "initial" /\ medias = 0 /\ ok = TRUE /\ lines = <<>> /\ attrs = <<>> /\ beh = ""

Add(k) ==
  /\ ok /\ Len(lines) < MaxLen
  /\ LET r == Line(k, state, medias) IN
     /\ state' = r.st /\ medias' = r.md /\ ok' = r.ok
     /\ lines' = Append(lines, k)
     /\ attrs' = IF r.at >= 0 THEN Append(attrs, r.at) ELSE attrs
     /\ beh' = ToJson([keys |-> lines', accept |-> r.ok, attrs |-> attrs', medias |-> r.md])

Next == \E k \in Keys : Add(k)
Spec == Init /\ [][Next]_vars

\* once a media section has started no attribute lands at session level any more
AttrPlacement == \A i \in 1..Len(attrs) : \A j \in 1..Len(attrs) : (i < j /\ attrs[i] > 0) => attrs[j] >= attrs[i]
StateOK == state \in {"initial", "session", "media", "timeDesc"} /\ (state = "media" => medias > 0)

AllKeys == {"v", "o", "s", "c", "b", "t", "r", "k", "a", "m", "i", "x"}
=============================================================================
