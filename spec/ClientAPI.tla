----------------------------- MODULE ClientAPI -----------------------------
(***************************************************************************)
(* Level B model of the client's API state machine (client.go: checkState  *)
(* maps of Options / Describe / Announce / Setup / Play / Record / Pause)   *)
(* against a WELL-BEHAVED server: which calls are accepted in which state  *)
(* and where they lead.                                                    *)
(*   initial  --Setup-->  prePlay  --Play-->  play  --Pause-->  prePlay    *)
(*   initial  --Announce--> preRecord --Setup*, Record--> record           *)
(*                                     record --Pause--> preRecord         *)
(* Options and Describe are accepted while nothing streams. A call that is *)
(* not allowed in the current state returns an error at once and changes   *)
(* nothing. TLC enumerates every call sequence up to MaxLen and exports it *)
(* with the predicted outcomes; the driver c12api replays the sequences    *)
(* with a real Client against a real Server: every call must return, Close *)
(* must return and leave nothing behind (ClientProp, C12); the predicted   *)
(* outcomes are compared as model drift.                                   *)
(***************************************************************************)
EXTENDS Naturals, Sequences, TLC, Json

CONSTANTS MaxLen, Calls

VARIABLES st,        \* "initial" | "prePlay" | "play" | "preRecord" | "record"
          setup,     \* all medias have been set up
          dead,      \* the server ended the connection (it does so after answering a request with an error)
          hist, beh
vars == <<st, setup, dead, hist, beh>>

Init == st = "initial" /\ setup = FALSE /\ dead = FALSE /\ hist = <<>> /\ beh = ""

Idle == st \in {"initial", "prePlay", "preRecord"}

\* outcome and next state of a call: <<ok, st', setup'>>
Eff(c) ==
  CASE c \in {"options", "describe"} -> <<Idle, st, setup>>
    [] c = "announce" -> IF st = "initial" THEN <<TRUE, "preRecord", FALSE>> ELSE <<FALSE, st, setup>>
    [] c = "setupall" ->
         IF ~Idle \/ setup THEN <<FALSE, st, setup>>          \* refused locally while streaming; a second SETUP of a
                                                             \* media is refused by the server (see Call)
         ELSE <<TRUE, IF st = "initial" THEN "prePlay" ELSE st, TRUE>>
    [] c = "play" -> IF st = "prePlay" THEN <<TRUE, "play", setup>> ELSE <<FALSE, st, setup>>
    [] c = "record" -> IF st = "preRecord" /\ setup THEN <<TRUE, "record", setup>> ELSE <<FALSE, st, setup>>
    [] c = "pause" -> IF st = "play" THEN <<TRUE, "prePlay", setup>>
                      ELSE IF st = "record" THEN <<TRUE, "preRecord", setup>>
                      ELSE <<FALSE, st, setup>>
    [] OTHER -> <<FALSE, st, setup>>

Call(c) ==
  /\ Len(hist) < MaxLen
  /\ LET e == IF dead THEN <<FALSE, st, setup>> ELSE Eff(c) IN
     /\ st' = e[2] /\ setup' = e[3]
     \* the one refusal that comes from the server (the client does not track it): the SETUP of a
     \* media that is set up already is answered 400 and the server closes the connection
     /\ dead' = (dead \/ (c = "setupall" /\ Idle /\ setup))
     /\ hist' = Append(hist, [op |-> c, ok |-> e[1], st |-> e[2]])
  /\ beh' = ToJson([calls |-> hist'])

Next == \E c \in Calls : Call(c)
Spec == Init /\ [][Next]_vars

\* sanity of the model: streaming states are only reached through their own path
PathOK == /\ (st = "play" => setup)
          /\ (st = "record" => setup)

AllCalls == {"options", "describe", "announce", "setupall", "play", "record", "pause"}
=============================================================================
