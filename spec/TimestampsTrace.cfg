SPECIFICATION Spec
CONSTANT W = 65536
CHECK_DEADLOCK FALSE
INVARIANT TraceConsumed
POSTCONDITION TraceComplete
