------------------------------ MODULE TraceIO ------------------------------
(***************************************************************************)
(* Common machinery for validating traces recorded from the real           *)
(* implementation against a property-level (Level A) specification.        *)
(*                                                                         *)
(* The trace file (env VERIF_TRACE) is newline-delimited JSON, one event   *)
(* per line, in the total order in which the events took the harness       *)
(* sink's mutex (in-library hook events are emitted under the library      *)
(* lock that protects the state they describe).  Many traces are           *)
(* concatenated; each starts with a "reset" event carrying the trace id    *)
(* `t`, a class key `k` and a replay descriptor `desc`.                    *)
(*                                                                         *)
(* A trace module defines, over its own variables,                         *)
(*    ResetAct  - the Level A initial condition, as an action reading Ev   *)
(*    StepAct   - the disjunction of Level A actions bound to Ev           *)
(*    Unch      - UNCHANGED of the Level A variables                       *)
(* and uses TraceNext(ResetAct, StepAct, Unch).  An event for which no     *)
(* Level A action is enabled REJECTS the current trace: the rejection is   *)
(* printed (the driver turns it into a verdict) and the rest of that trace *)
(* is skipped, so the remaining traces are still examined.                 *)
(***************************************************************************)
EXTENDS Naturals, Sequences, TLC, Json, IOUtils

VARIABLES l,      \* cursor: index of the next event to consume
          dead,   \* TRUE while skipping the remainder of a rejected trace
          tid     \* id of the current trace (from its reset event)

tvars == <<l, dead, tid>>

Trace == ndJsonDeserialize(IOEnv.VERIF_TRACE)

Ev == Trace[l]
Is(name) == Ev.e = name
Has(f) == f \in DOMAIN Ev

TraceInit == l = 1 /\ dead = TRUE /\ tid = 0

Reject == PrintT(<<"REJECT", tid, l, Ev.e>>)

TraceNext(ResetAct, StepAct, Unch) ==
  /\ l <= Len(Trace)
  /\ l' = l + 1
  /\ \/ Is("reset") /\ ResetAct /\ dead' = FALSE /\ tid' = Ev.t
     \/ ~Is("reset") /\ ~dead /\ StepAct /\ UNCHANGED <<dead, tid>>
     \/ ~Is("reset") /\ ~dead /\ ~ENABLED StepAct /\ Reject
           /\ dead' = TRUE /\ Unch /\ UNCHANGED tid
     \/ ~Is("reset") /\ dead /\ Unch /\ UNCHANGED <<dead, tid>>

\* Acceptance: the whole file was consumed (rejections are reported separately).
TraceConsumed == (l = Len(Trace) + 1) => TLCSet(1, TRUE)
TraceInitPost == TLCSet(1, FALSE)
TraceComplete == TLCGet(1) = TRUE
=============================================================================
