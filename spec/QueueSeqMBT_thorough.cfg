SPECIFICATION Spec
CONSTANTS
  Caps = {1, 2, 4}
  Depth = 7
  Nil = Nil
INVARIANT Export
CHECK_DEADLOCK FALSE
