SPECIFICATION Spec
CONSTANTS
  Caps = {1, 2, 4}
  Depth = 7
  Nil = Nil
CHECK_DEADLOCK FALSE
