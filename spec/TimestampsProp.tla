--------------------------- MODULE TimestampsProp ---------------------------
(***************************************************************************)
(* Level A (property) specification for C15: 64-bit PTS continuation of    *)
(* wrapping RTP timestamps, late-starting tracks, and the NTP mapping.     *)
(*                                                                         *)
(* Timestamps live in a ring of W = 2^k values.  Real executions use       *)
(* 32-bit timestamps that are multiples of 2^(32-k) (plus a constant), and *)
(* clock rates that are multiples of 2^(32-k): signed differences and      *)
(* 64-bit accumulation commute with that scaling, so the harness logs the  *)
(* values divided by 2^(32-k) - exactly, or it logs `inexact`, which no    *)
(* action accepts.                                                         *)
(*                                                                         *)
(*   First(tr, ts, pts)        first packet of the leading track           *)
(*   Dec(tr, ts, pts)          a later packet of a known track             *)
(*   Late(tr, ts, pts, el)     first packet of another track, el whole     *)
(*                             seconds after the leading track's last one  *)
(*   NtpMap(rtp, t)            the writer associated RTP time rtp with     *)
(*                             absolute time t (lattice units) - last      *)
(*                             packet before a sender report               *)
(*   NtpGet(rtp, t, remNs)     the receiver was asked for the absolute     *)
(*                             time of RTP time rtp and answered t lattice *)
(*                             units + remNs nanoseconds                   *)
(*   NtpInv(diffNs)            |Decode(Encode(x)) - x| for a lattice time  *)
(***************************************************************************)
EXTENDS Naturals, Integers, Sequences

CONSTANT W                 \* ring size of the (scaled) RTP timestamps

VARIABLES rate,            \* track -> ticks per second (scaled), set by the trace's reset
          cur, acc, known, \* per track: last timestamp, accumulated PTS, seen before
          lead,            \* leading track (0: none yet)
          refs,            \* <<PTS, arrival time in seconds>> of the leading track's packets so far
          mapRtp, mapT, mapped,    \* writer's association
          perLattice       \* ticks per lattice unit of the NTP track
tvarsA == <<rate, cur, acc, known, lead, refs, mapRtp, mapT, mapped, perLattice>>

Tracks == 1..3
TInit == /\ rate = [t \in Tracks |-> 1] /\ cur = [t \in Tracks |-> 0] /\ acc = [t \in Tracks |-> 0]
         /\ known = [t \in Tracks |-> FALSE] /\ lead = 0 /\ refs = {} /\ mapRtp = 0 /\ mapT = 0 /\ mapped = FALSE
         /\ perLattice = 1
TReset(rates, pl) ==
         /\ rate' = [t \in Tracks |-> rates[t]] /\ cur' = [t \in Tracks |-> 0] /\ acc' = [t \in Tracks |-> 0]
         /\ known' = [t \in Tracks |-> FALSE] /\ lead' = 0 /\ refs' = {} /\ mapRtp' = 0 /\ mapT' = 0 /\ mapped' = FALSE
         /\ perLattice' = pl

\* signed difference b - a in the ring, in (-W/2, W/2]... as the code: int32(b - a)
SDiff(a, b) == LET d == (b + W - a) % W IN IF d >= W \div 2 THEN d - W ELSE d

First(tr, ts, pts, at) ==
  /\ lead = 0 /\ ~known[tr]
  /\ pts = 0                                       \* the timeline starts at the leading track
  /\ lead' = tr /\ refs' = {<<0, at>>}
  /\ known' = [known EXCEPT ![tr] = TRUE] /\ cur' = [cur EXCEPT ![tr] = ts] /\ acc' = [acc EXCEPT ![tr] = 0]
  /\ UNCHANGED <<rate, mapRtp, mapT, mapped, perLattice>>

\* the PTS difference between two packets is the sum of the signed differences in between
Dec(tr, ts, pts, at) ==
  /\ known[tr]
  /\ pts = acc[tr] + SDiff(cur[tr], ts)
  /\ cur' = [cur EXCEPT ![tr] = ts] /\ acc' = [acc EXCEPT ![tr] = pts]
  /\ refs' = IF tr = lead THEN refs \cup {<<pts, at>>} ELSE refs
  /\ UNCHANGED <<rate, known, lead, mapRtp, mapT, mapped, perLattice>>

\* a track that starts later is placed on the leading track's timeline: its first PTS is the PTS
\* of SOME packet of the leading track plus the time that has passed since THAT packet arrived
\* (a PTS and an arrival time that belong together; which packet serves as the reference is open)
Late(tr, ts, pts, at) ==
  /\ lead # 0 /\ ~known[tr]
  /\ \E r \in refs :
       /\ (r[1] * rate[tr]) % rate[lead] = 0        \* (the harness only uses exact ratios)
       /\ pts = (r[1] * rate[tr]) \div rate[lead] + (at - r[2]) * rate[tr]
  /\ known' = [known EXCEPT ![tr] = TRUE] /\ cur' = [cur EXCEPT ![tr] = ts] /\ acc' = [acc EXCEPT ![tr] = pts]
  /\ UNCHANGED <<rate, lead, refs, mapRtp, mapT, mapped, perLattice>>

NtpMap(rtp, t) ==
  /\ mapRtp' = rtp /\ mapT' = t /\ mapped' = TRUE
  /\ UNCHANGED <<rate, cur, acc, known, lead, refs, perLattice>>

\* absolute time of a packet = writer's time for its RTP timestamp, to within one tick
\* plus NTP rounding (remNs is the part below one lattice unit)
NtpGet(rtp, t, remNs) ==
  /\ mapped
  /\ SDiff(mapRtp, rtp) % perLattice = 0
  /\ t = mapT + SDiff(mapRtp, rtp) \div perLattice
  /\ remNs >= 0 - 2 /\ remNs <= 2
  /\ UNCHANGED tvarsA

\* end to end (real client, real server): when the client returns an absolute time for a packet,
\* it is the writer's for that packet, to the millisecond - a sender report applies to the stream
\* whose SSRC it names and to no other
NtpE2E(returned, diffMs) == (returned => (diffMs >= 0 - 1 /\ diffMs <= 1)) /\ UNCHANGED tvarsA

NtpInv(diffNs) == diffNs >= 0 - 1 /\ diffNs <= 1 /\ UNCHANGED tvarsA
=============================================================================
