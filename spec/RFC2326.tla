------------------------------ MODULE RFC2326 ------------------------------
(***************************************************************************)
(* The server state machine of RFC 2326 appendix A.2 as pure operators,    *)
(* shared by the property specifications that speak about session states   *)
(* (SessionProp: one control connection; SharedSessionProp: a session used *)
(* by several control connections).                                        *)
(***************************************************************************)
EXTENDS Naturals

\* RFC 2326 A.2 (server state machine); "none" behaves as a fresh session in `initial`
Succ(st, m) ==
  CASE st \in {"none", "initial"} /\ m = "SETUP"    -> "prePlay"
    [] st \in {"none", "initial"} /\ m = "ANNOUNCE" -> "preRecord"
    [] st = "prePlay"   /\ m = "SETUP"  -> "prePlay"
    [] st = "prePlay"   /\ m = "PLAY"   -> "play"
    [] st = "play"      /\ m = "PAUSE"  -> "prePlay"
    [] st = "preRecord" /\ m = "SETUP"  -> "preRecord"
    [] st = "preRecord" /\ m = "RECORD" -> "record"
    [] st = "record"    /\ m = "PAUSE"  -> "preRecord"
    [] OTHER -> st

HasSucc(st, m) ==
  \/ st \in {"none", "initial"} /\ m \in {"SETUP", "ANNOUNCE"}
  \/ st = "prePlay" /\ m \in {"SETUP", "PLAY"}
  \/ st = "play" /\ m = "PAUSE"
  \/ st = "preRecord" /\ m \in {"SETUP", "RECORD"}
  \/ st = "record" /\ m = "PAUSE"

\* requests that are definitely illegal in a state
Illegal(st, m) ==
  \/ m = "PLAY"     /\ st \in {"initial", "preRecord", "record"}
  \/ m = "RECORD"   /\ st \in {"initial", "prePlay", "play", "record"}
  \/ m = "ANNOUNCE" /\ st \in {"prePlay", "play", "preRecord", "record"}
  \/ m = "SETUP"    /\ st \in {"play", "record"}
  \/ m = "PAUSE"    /\ st = "initial"

Ok(status) == status >= 200 /\ status <= 299

=============================================================================
