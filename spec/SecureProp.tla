------------------------------ MODULE SecureProp ------------------------------
(***************************************************************************)
(* Level A (property) specification for C17: secure sessions.              *)
(*   Admit(tls, profile, proto, ok)   a SETUP asking for profile           *)
(*        ("AVP" / "SAVP") over proto ("udp" / "tcp") reached a server     *)
(*        with / without TLS; ok = it was accepted                         *)
(*   Redirect(fromSecure, toSecure, followed)  the client got a redirect   *)
(*   Sent(id)              packet id was written by the sender             *)
(*   Wire(clear)           a datagram / interleaved frame of the secure    *)
(*                         session was seen on the wire; clear = it        *)
(*                         contains the clear marker payload bytes         *)
(*   Tamper(id)            the protected packet carrying id was altered in *)
(*                         transit (one bit / one byte)                    *)
(*   Dlv(id, same)         the receiver's callback got packet id           *)
(*   Barrier(reliable)     writing stopped and the receiver was given time *)
(***************************************************************************)
EXTENDS Naturals, FiniteSets

VARIABLES sent, tampered, got
secvars == <<sent, tampered, got>>
SecInit == sent = {} /\ tampered = {} /\ got = {}
SecReset == sent' = {} /\ tampered' = {} /\ got' = {}

\* the server refuses secure profiles over plain RTSP and unencrypted UDP over RTSPS
MustRefuse(tls, profile, proto) == (~tls /\ profile = "SAVP") \/ (tls /\ profile = "AVP" /\ proto = "udp")
Admit(tls, profile, proto, ok) == ok = ~MustRefuse(tls, profile, proto) /\ UNCHANGED secvars

\* the client refuses a redirect from rtsps to rtsp
Redirect(fromSecure, toSecure, followed) == ((fromSecure /\ ~toSecure) => ~followed) /\ UNCHANGED secvars

Sent(id) == sent' = sent \cup {id} /\ UNCHANGED <<tampered, got>>

\* payload bytes never appear in clear
Wire(clear) == ~clear /\ UNCHANGED secvars

Tamper(id) == tampered' = tampered \cup {id} /\ UNCHANGED <<sent, got>>

\* what is delivered was sent, is intact, and was not altered in transit
Dlv(id, same) == id \in sent /\ same /\ id \notin tampered /\ got' = got \cup {id} /\ UNCHANGED <<sent, tampered>>

\* each side decrypts exactly what the other encrypts: on a reliable transport every
\* untampered packet has been delivered by the barrier
Barrier(reliable) == (reliable => (sent \ tampered) \subseteq got) /\ UNCHANGED secvars
=============================================================================
