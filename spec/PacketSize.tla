------------------------------ MODULE PacketSize ------------------------------
(***************************************************************************)
(* Level B integer model for C18: every write entry point computes         *)
(*     maxPlain = MaxPacketSize - (secure ? srtpOverhead : 0)              *)
(* marshals the packet into a buffer of maxPlain bytes (error if it does   *)
(* not fit) and, when secure, protects it into a buffer of MaxPacketSize   *)
(* bytes: SRTP adds the 10-byte authentication tag, SRTCP 4 bytes of index *)
(* plus the tag (14), a master key identifier 4 more.                      *)
(* TLC enumerates entry x kind x secure x MKI x maximum x plain size       *)
(* around the limit, checks the model's decision against SizeProp          *)
(* (B => A: the wire size never exceeds the maximum; error => nothing      *)
(* sent) and exports the cases; start-up validation of MaxPacketSize and   *)
(* WriteQueueSize is enumerated as a table.                                *)
(***************************************************************************)
EXTENDS Naturals, Integers, TLC, Json

CONSTANTS Maxima, Span

VARIABLES case, beh
vars == <<case, beh>>

SrtpOverhead == 10
\* "multicast" = ServerStream.WritePacketRTP/RTCP reaching the stream's multicast writer (a reader
\* that set the stream up with multicast delivery): the stream marshals / protects once with the
\* same limits as for its unicast readers and hands the bytes to the multicast sockets.
Entries == {"client", "session", "stream", "multicast"}
\* only a client's outbound context ever carries a master key identifier (client-managed keys);
\* the server's session / stream / multicast contexts never do
MkiEntries == {"client"}
Kinds == {"rtp", "rtcp"}

Overhead(kind, secure, mki) ==
  IF ~secure THEN 0 ELSE (IF kind = "rtp" THEN 10 ELSE 14) + (IF mki THEN 4 ELSE 0)

\* the model's decision
Fits(max, kind, secure, plain) == plain <= max - (IF secure THEN SrtpOverhead ELSE 0)
Wire(max, kind, secure, mki, plain) == plain + Overhead(kind, secure, mki)

Cases == {[entry |-> e, kind |-> k, secure |-> s, mki |-> m, max |-> mx, plain |-> mx + d] :
            e \in Entries, k \in Kinds, s \in BOOLEAN, m \in BOOLEAN, mx \in Maxima, d \in (0 - Span)..Span}
ValidCases == {c \in Cases : (c.mki => (c.secure /\ c.entry \in MkiEntries)) /\ c.plain >= 12}

Init == case = [entry |-> "-"] /\ beh = ""
Pick == /\ beh = ""
        /\ \E c \in ValidCases :
             /\ case' = c
             /\ beh' = ToJson([entry |-> c.entry, kind |-> c.kind, secure |-> c.secure, mki |-> c.mki,
                               max |-> c.max, plain |-> c.plain,
                               fits |-> Fits(c.max, c.kind, c.secure, c.plain),
                               wire |-> Wire(c.max, c.kind, c.secure, c.mki, c.plain)])
Spec == Init /\ [][Pick]_vars

\* B => A on the model: whatever the model sends is within the maximum ...
WireWithinMax == \A c \in ValidCases :
                   Fits(c.max, c.kind, c.secure, c.plain) => Wire(c.max, c.kind, c.secure, c.mki, c.plain) <= c.max
\* ... (this FAILS for SRTCP and for a master key identifier if the reserved overhead is only 10:
\* the protected packet then does not fit the MaxPacketSize buffer and the library reports an
\* error instead of sending an oversize packet - see ProtectFails)
ProtectFails(c) == Wire(c.max, c.kind, c.secure, c.mki, c.plain) > c.max
Sound == \A c \in ValidCases :
           (Fits(c.max, c.kind, c.secure, c.plain) /\ ~ProtectFails(c)) => Wire(c.max, c.kind, c.secure, c.mki, c.plain) <= c.max

MaximaQuick == {100, 1472}
MaximaThorough == {64, 100, 576, 1000, 1400, 1472}
=============================================================================
