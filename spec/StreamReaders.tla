--------------------------- MODULE StreamReaders ---------------------------
(***************************************************************************)
(* Level B model of ServerStream's reader bookkeeping (server_stream.go:   *)
(* readerAdd / readerSetActive / readerSetInactive / readerRemove / Close) *)
(* with readers over different transports sharing one stream:              *)
(*   readers      sessions that set the stream up and have not left        *)
(*   active       unicast readers (TCP / UDP) that are playing: the writer *)
(*                fans packets out to these                                *)
(*   mreaders     multicast readers; the FIRST one creates the stream's    *)
(*                multicast writers (sockets + routines, one per media),   *)
(*                the LAST one to leave releases them                      *)
(* TLC enumerates every sequence of join / play / pause / leave over a few *)
(* readers and transports up to MaxLen, checks the accounting invariants   *)
(* and exports each sequence with the census the model predicts after      *)
(* every step; the driver c13s replays them with real clients and compares *)
(* the real census (drift), then closes everything and takes the goroutine *)
(* census that LifecycleProp judges.                                       *)
(***************************************************************************)
EXTENDS Naturals, Sequences, FiniteSets, TLC, Json

CONSTANTS Readers, Protos, MaxLen

VARIABLES st,      \* reader -> "out" | "setup" | "play"
          proto,   \* reader -> transport it set up with ("-" when out)
          closed,  \* ServerStream.Close has been called: every reader is gone, nobody can join
          hist, beh
vars == <<st, proto, closed, hist, beh>>

In == {r \in Readers : st[r] # "out"}
NReaders == Cardinality(In)
NActive == Cardinality({r \in In : st[r] = "play" /\ proto[r] # "mcast"})
NMcast == Cardinality({r \in In : proto[r] = "mcast"})
Writers == NMcast > 0

Init == st = [r \in Readers |-> "out"] /\ proto = [r \in Readers |-> "-"] /\ closed = FALSE
        /\ hist = <<>> /\ beh = ""

Rec(op, r, p) == [op |-> op, r |-> r, p |-> p, readers |-> NReaders', active |-> NActive',
                  mreaders |-> NMcast', writers |-> Writers']

Join(r, p) == /\ st[r] = "out" /\ ~closed /\ UNCHANGED closed
              \* readers appear in order (symmetry: reader k joins only after reader k-1 did once)
              /\ \A q \in Readers : q < r => proto[q] # "-" \/ st[q] # "out"
              /\ st' = [st EXCEPT ![r] = "setup"] /\ proto' = [proto EXCEPT ![r] = p]
              /\ hist' = Append(hist, Rec("join", r, p))
Play(r) == /\ st[r] = "setup" /\ st' = [st EXCEPT ![r] = "play"] /\ UNCHANGED <<proto, closed>>
           /\ hist' = Append(hist, Rec("play", r, proto[r]))
Pause(r) == /\ st[r] = "play" /\ st' = [st EXCEPT ![r] = "setup"] /\ UNCHANGED <<proto, closed>>
            /\ hist' = Append(hist, Rec("pause", r, proto[r]))
Leave(r) == /\ st[r] # "out" /\ st' = [st EXCEPT ![r] = "out"] /\ UNCHANGED <<proto, closed>>
            /\ hist' = Append(hist, Rec("leave", r, proto[r]))

\* ServerStream.Close: the sessions of all readers are closed (they leave), what the multicast
\* readers shared is released
CloseStream == /\ ~closed /\ closed' = TRUE
               /\ st' = [r \in Readers |-> "out"] /\ UNCHANGED proto
               /\ hist' = Append(hist, Rec("close", 0, "-"))
\* a SETUP that reaches a closed stream is refused and leaves nothing behind - whatever the
\* transport it asks for (the first reader that may not have joined yet tries)
JoinRefused(r, p) == /\ closed /\ st[r] = "out" /\ UNCHANGED <<st, proto, closed>>
                     /\ \A q \in Readers : q < r => proto[q] # "-"
                     /\ hist' = Append(hist, Rec("join_refused", r, p))

Next ==
  /\ Len(hist) < MaxLen
  /\ \/ \E r \in Readers : (\E p \in Protos : Join(r, p) \/ JoinRefused(r, p)) \/ Play(r) \/ Pause(r) \/ Leave(r)
     \/ CloseStream
  /\ beh' = ToJson([ops |-> hist'])
Spec == Init /\ [][Next]_vars

\* accounting invariants of the model
AcctOK == /\ NActive <= NReaders /\ NMcast <= NReaders
          /\ (Writers <=> NMcast > 0)
          /\ \A r \in Readers : st[r] = "out" \/ proto[r] \in Protos
          /\ (closed => (NReaders = 0 /\ ~Writers))
=============================================================================
