SPECIFICATION Spec
CONSTANTS
  M = 16
  Sizes = {2, 4, 8}
  Modes = {TRUE, FALSE}
  Starts = {0, 1, 2, 3, 4, 5, 6, 7, 8, 9, 10, 11, 12, 13, 14, 15}
  MaxLen = 10
  Window = 0
INVARIANT AInv
INVARIANT BImpliesA
INVARIANT Agreement
CHECK_DEADLOCK FALSE
