---------------------------- MODULE BindingTrace ----------------------------
EXTENDS TraceIO, BindingProp
ResetAct == BReset
StepAct ==
  \/ Is("dgram")     /\ Dgram(Ev.side, Ev.src, Ev.anyPort, Ev.firstSeen, Ev.delivered, Ev.stats)
  \/ Is("keepalive") /\ KeepAlive(Ev.src, Ev.expired)
  \/ Is("steal")     /\ Steal(Ev.how, Ev.status, Ev.same)
  \* the harness itself was late with the real peer's signs of life (a stalled machine): no claim
  \/ Is("keepalive_void") /\ UNCHANGED bndvars
  \/ Is("end")       /\ UNCHANGED bndvars
Next == TraceNext(ResetAct, StepAct, UNCHANGED bndvars)
Init == TraceInit /\ BInit
Spec == Init /\ [][Next]_<<tvars, bndvars>>
=============================================================================
