SPECIFICATION SpecH
CONSTANTS
  M = 65536
  Sizes = {2, 4}
  Modes = {TRUE}
  Starts = {0, 65533, 65535}
  MaxLen = 6
  Window = 2
CHECK_DEADLOCK FALSE
