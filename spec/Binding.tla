------------------------------- MODULE Binding -------------------------------
(***************************************************************************)
(* Level B model for C19: the UDP source filters                            *)
(*   server: clients[(ip, port)] -> session   (serverUDPListener)           *)
(*   client: readIP must match; readPort must match unless AnyPortEnable,   *)
(*           in which case the port of the first packet is adopted          *)
(* and the control-plane checks (session author IP, interleaved connection  *)
(* pin).  TLC enumerates source class x side x any-port x first-seen x      *)
(* session state, checks each modelled decision against BindingProp and    *)
(* exports the cases for replay with real sockets.                          *)
(***************************************************************************)
EXTENDS Naturals, TLC, Json

VARIABLES case, beh
vars == <<case, beh>>

Sides == {"server", "client"}
Srcs == {"peer", "port", "ip", "both"}
States == {"prePlay", "play", "preRecord", "record"}

\* modelled filter decisions
ServerDelivers(src) == src = "peer"
ClientDelivers(src, anyPort, firstSeen) ==
  CASE src = "peer" -> TRUE
    [] src = "port" -> anyPort /\ ~firstSeen
    [] OTHER -> FALSE

\* wild (server side): the server's sockets are wildcard dual-stack ones, on which an IPv4 peer
\* shows up as an IPv4-mapped IPv6 address
\* gap (server side): the negotiated client ports are not consecutive (client_port=P-Q, Q # P+1,
\* which the Transport header allows); the "other port" an RTCP datagram then comes from is P+1
DgramCases == {[kind |-> "dgram", side |-> s, src |-> r, anyPort |-> a, firstSeen |-> f, proto |-> p, wild |-> w, gap |-> g] :
                 s \in Sides, r \in Srcs, a \in BOOLEAN, f \in BOOLEAN, p \in {"rtp", "rtcp"}, w \in BOOLEAN, g \in BOOLEAN}
ValidDgram == {c \in DgramCases : /\ (c.side = "server" => ~c.anyPort) /\ (c.wild => c.side = "server")
                                  /\ (c.gap => (c.side = "server" /\ ~c.wild /\ c.src \in {"peer", "port"}))}
\* early: the other connection already presented the session id (a harmless OPTIONS, answered)
\* while the session was being set up, before it started to stream
StealCases == {[kind |-> "steal", how |-> h, state |-> st, method |-> m, early |-> e] :
                 h \in {"ip", "conn", "ip6"}, st \in States, m \in {"PLAY", "PAUSE", "TEARDOWN", "SETUP", "GET_PARAMETER", "FRAME"},
                 e \in BOOLEAN}
\* "conn" applies while the session streams over an interleaved connection
\* "ip6": both addresses are native IPv6 ones (the session is set up over TCP and not streaming yet,
\* so that only the creator-address rule protects it)
ValidSteal == {c \in StealCases : /\ (c.how = "conn" => c.state \in {"play", "record"})
                                  /\ (c.early => c.how = "conn")
                                  /\ (c.how = "ip6" => c.state \in {"prePlay", "preRecord"})
                                  \* FRAME: instead of a request, interleaved RTP / RTCP frames for the
                                  \* session's channels are written on the other connection
                                  /\ (c.method = "FRAME" => c.how = "conn")}
\* liveness bookkeeping on either side: the server's session timeouts, the client's UDP timeout
KeepCases == {[kind |-> "keepalive", side |-> "server", src |-> r, state |-> st] : r \in Srcs, st \in {"play", "record"}}
             \cup {[kind |-> "keepalive", side |-> "client", src |-> r, state |-> "play"] : r \in Srcs}

Delivered(c) == IF c.side = "server" THEN ServerDelivers(c.src) ELSE ClientDelivers(c.src, c.anyPort, c.firstSeen)

\* B => A
DgramOK == \A c \in ValidDgram :
             CASE c.src = "peer" -> Delivered(c)
               [] c.src \in {"ip", "both"} -> ~Delivered(c)
               [] OTHER -> (c.anyPort /\ ~c.firstSeen) \/ ~Delivered(c)

Init == case = [kind |-> "-"] /\ beh = ""
Pick == /\ beh = ""
        /\ \E c \in ValidDgram \cup ValidSteal \cup KeepCases :
             /\ case' = c
             /\ beh' = ToJson(c)
Spec == Init /\ [][Pick]_vars
=============================================================================
