---------------------------- MODULE PayloadProp ----------------------------
(***************************************************************************)
(* Level A (property) specification for the RTP payload codecs             *)
(* (pkg/format/rtp...): C03 round trip, C06 packetizer limits, numbering,  *)
(* C07 resynchronisation after loss/duplication/reordering, C08 hostile    *)
(* packets.  Frames, units and packets are abstract: the harness maps      *)
(* bytes to identities (frame ids, "equal to the original" flags, sizes);  *)
(* the specification decides which sequences of observations are allowed.  *)
(*                                                                         *)
(* One trace = one encoder/decoder pair of one format, configured by the   *)
(* trace's reset event:                                                    *)
(*   limit      configured maximum payload size (0: format does not        *)
(*              fragment, no limit applies)                                *)
(*   seq0, pt   configured initial sequence number / expected payload type *)
(*   mrule      "video": marker exactly on the packet completing a frame   *)
(*              "last" : marker on the completing packet (others open)     *)
(*              "open" : marker not constrained (RTP audio profile)        *)
(*   fmode      TRUE : frame format - "more packets needed" before the     *)
(*                     frame's last packet, the whole frame at it          *)
(*              FALSE: group format - packets are independently decodable; *)
(*                     what is returned over the frame's packets is, in    *)
(*                     order, the frame's units                            *)
(*   cap        documented maximum frame size (0: none)                    *)
(***************************************************************************)
EXTENDS Naturals, Sequences, FiniteSets

VARIABLES cfg,       \* the configuration record above
          nextSeq,   \* sequence number the next emitted packet must carry
          encFrame,  \* frame currently being emitted by the encoder
          encLeft,   \* packets of it still to come
          decFrame, decIdx,   \* C03: frame / packet index expected by the in-order decode
          unitsOut,  \* C03 group formats: units returned so far for the current frame
          \* C07 ghost state
          prevClean, \* the previously fed block was a whole frame, in order (its frame id, or 0)
          curFrame, curIdx, curN,  \* block being fed: frame id, next packet index, packets in frame
          curClean,  \* the block so far is the frame's packets 0..curIdx-1 in order
          owed,      \* frame ids that must be returned (eligible, not yet returned)
          due,       \* frame id whose return is overdue if not returned by the current feed, or 0
          returned,  \* frame ids already returned intact
          fedPk,     \* packets <<f, i>> fed so far
          dupd,      \* frames some packet of which was fed more than once
          \* C08 ghost state
          worst      \* largest retained size seen

pvars == <<cfg, nextSeq, encFrame, encLeft, decFrame, decIdx, unitsOut, prevClean,
           curFrame, curIdx, curN, curClean, owed, due, returned, fedPk, dupd, worst>>

Mod16 == 65536

PReset(c) ==
  /\ cfg' = c /\ nextSeq' = c.seq0 /\ encFrame' = 0 /\ encLeft' = 0
  /\ decFrame' = 0 /\ decIdx' = 0 /\ unitsOut' = 0
  /\ prevClean' = 0 /\ curFrame' = 0 /\ curIdx' = 0 /\ curN' = 0 /\ curClean' = FALSE
  /\ owed' = {} /\ due' = 0 /\ returned' = {} /\ fedPk' = {} /\ dupd' = {} /\ worst' = 0

PInit ==
  /\ cfg = [limit |-> 0, seq0 |-> 0, pt |-> 0, mrule |-> "open", fmode |-> TRUE, cap |-> 0]
  /\ nextSeq = 0 /\ encFrame = 0 /\ encLeft = 0 /\ decFrame = 0 /\ decIdx = 0 /\ unitsOut = 0
  /\ prevClean = 0 /\ curFrame = 0 /\ curIdx = 0 /\ curN = 0 /\ curClean = FALSE
  /\ owed = {} /\ due = 0 /\ returned = {} /\ fedPk = {} /\ dupd = {} /\ worst = 0

-----------------------------------------------------------------------------
(* C06: what the encoder emits.                                            *)
(* EncPacket(f, i, n, size, seq, marker, pt, ssrcOk): packet i of the n    *)
(* packets produced by the Encode call for frame f.                        *)
EncPacket(f, i, n, size, seq, marker, pt, ssrcOk) ==
  /\ IF i = 0 THEN encLeft = 0 /\ n >= 1            \* a new Encode call
              ELSE encFrame = f /\ encLeft = n - i  \* consecutive packets of the same call
  /\ cfg.limit > 0 => size <= cfg.limit             \* payload never exceeds the limit
  /\ size >= 1
  /\ seq = nextSeq                                  \* gapless, +1 mod 2^16 across calls
  /\ pt = cfg.pt /\ ssrcOk
  /\ CASE cfg.mrule = "video" -> marker = (i = n - 1)
       [] cfg.mrule = "last"  -> (i = n - 1) => marker
       [] OTHER               -> TRUE
  /\ nextSeq' = (seq + 1) % Mod16
  /\ encFrame' = f /\ encLeft' = n - i - 1
  /\ UNCHANGED <<cfg, decFrame, decIdx, unitsOut, prevClean, curFrame, curIdx, curN,
                 curClean, owed, due, returned, fedPk, dupd, worst>>

\* EncDone(f, inputIntact): the Encode call returned; the caller's buffers are untouched.
EncDone(f, inputIntact) ==
  /\ encLeft = 0 /\ inputIntact
  /\ UNCHANGED pvars

-----------------------------------------------------------------------------
(* C03: decoding the encoder's packets, in order.                          *)
(* Dec(f, i, n, res, eq, units, total): packet i of frame f's n packets    *)
(* was decoded; res is "more", "frame" or "err"; eq says whether what was  *)
(* returned equals the original (frame formats: the whole frame; group     *)
(* formats: the next `units` units of the frame); total = units in frame.  *)
Dec(f, i, n, res, eq, units, total) ==
  /\ IF i = 0 THEN decIdx = 0 ELSE decFrame = f /\ decIdx = i
  /\ IF cfg.fmode
     THEN /\ (i < n - 1) => res = "more"
          /\ (i = n - 1) => (res = "frame" /\ eq)
          /\ unitsOut' = 0
     ELSE /\ res \in {"more", "frame"}
          /\ res = "frame" => eq
          /\ LET u == (IF i = 0 THEN 0 ELSE unitsOut) + (IF res = "frame" THEN units ELSE 0)
             IN /\ u <= total
                /\ (i = n - 1) => u = total          \* everything has been returned
                /\ unitsOut' = u
  /\ decFrame' = f
  /\ decIdx' = IF i = n - 1 THEN 0 ELSE i + 1
  /\ UNCHANGED <<cfg, nextSeq, encFrame, encLeft, prevClean, curFrame, curIdx, curN,
                 curClean, owed, due, returned, fedPk, dupd, worst>>

-----------------------------------------------------------------------------
(* C07: a faulted packet stream.                                           *)
(* Feed(f, i, n, res, rf, intact): the packet that was originally packet i *)
(* of frame f (n packets) is fed; the decoder answered res; if it returned *)
(* a frame, rf is the id of the original frame it equals (intact) or the   *)
(* frame it most resembles (not intact; 0 if none).                        *)
(*                                                                         *)
(* A frame is ELIGIBLE when its packets were fed as one uninterrupted run  *)
(* 0..n-1 immediately after such a run of the preceding frame.  Eligible   *)
(* frames must be returned intact exactly once, no later than the feed of  *)
(* the following frame's first packet (when that packet is what comes      *)
(* next).  Everything else (damaged frames, what is returned for them) is  *)
(* left open, except that no frame is returned intact twice unless one of  *)
(* its packets was fed twice.                                              *)
FeedBook(f, i, n) ==
  \* bookkeeping of runs; yields <<prevClean', curFrame', curIdx', curN', curClean', newlyEligible, due'>>
  LET contRun  == curClean /\ f = curFrame /\ i = curIdx /\ i < curN     \* continues the run
      runDone  == curClean /\ curIdx = curN /\ curN > 0                  \* previous block was a whole frame
      starts   == i = 0                                                  \* starts a new run
  IN IF contRun
     THEN [prev |-> prevClean, cf |-> f, ci |-> i + 1, cn |-> n, cc |-> TRUE,
           elig |-> IF i + 1 = n /\ prevClean # 0 /\ prevClean = f - 1 THEN {f} ELSE {},
           due |-> 0]
     ELSE [prev |-> IF runDone THEN curFrame ELSE 0,
           cf |-> f, ci |-> IF starts THEN 1 ELSE 0, cn |-> n, cc |-> starts,
           elig |-> IF starts /\ n = 1 /\ runDone /\ curFrame = f - 1 THEN {f} ELSE {},
           \* the frame that just completed must have been returned by now
           \* if this packet is the first packet of its successor
           due |-> IF runDone /\ starts /\ f = curFrame + 1 THEN curFrame ELSE 0]

Feed(f, i, n, res, rf, intact) ==
  LET b == FeedBook(f, i, n)
      got == IF res = "frame" /\ intact THEN {rf} ELSE {}
  IN /\ res \in {"more", "frame", "err"}
     /\ LET d == IF <<f, i>> \in fedPk THEN dupd \cup {f} ELSE dupd IN
        /\ dupd' = d /\ fedPk' = fedPk \cup {<<f, i>>}
        /\ (got \cap returned) \subseteq d                \* never returned intact twice
                                                         \* (unless its packets were duplicated)
     /\ prevClean' = b.prev /\ curFrame' = b.cf /\ curIdx' = b.ci /\ curN' = b.cn /\ curClean' = b.cc
     /\ returned' = returned \cup got
     /\ owed' = (owed \cup b.elig) \ got
     \* deadline: an owed frame whose successor's first packet is being processed
     /\ (b.due # 0 /\ b.due \in owed) => b.due \in got
     /\ due' = b.due
     /\ UNCHANGED <<cfg, nextSeq, encFrame, encLeft, decFrame, decIdx, unitsOut, worst>>

\* end of a faulted stream: the harness ended it with two clean frames, so every
\* frame owed before those has met its deadline
FeedEnd == UNCHANGED pvars

-----------------------------------------------------------------------------
(* C08: hostile packets.                                                   *)
(* Hostile(res, retained, outSize, stable, panicked, pktSize)              *)
Hostile(res, retained, outSize, stable, panicked, pktSize) ==
  /\ ~panicked
  /\ res \in {"more", "frame", "err"}
  /\ stable                                            \* frames already returned never change
  /\ cfg.cap > 0 => (retained <= cfg.cap + pktSize /\ outSize <= cfg.cap)
  /\ worst' = IF retained > worst THEN retained ELSE worst
  /\ UNCHANGED <<cfg, nextSeq, encFrame, encLeft, decFrame, decIdx, unitsOut, prevClean,
                 curFrame, curIdx, curN, curClean, owed, due, returned, fedPk, dupd>>
=============================================================================
