----------------------------- MODULE QueueTrace -----------------------------
(* Trace validation of real RingBuffer / Processor executions against QueueProp. *)
EXTENDS TraceIO, QueueProp

ResetAct == QReset(Ev.cap)

StepAct ==
  /\ \/ Is("push_ok")     /\ PushOk(Ev.id)
     \/ Is("push_full")   /\ PushFull(Ev.id)
     \/ Is("start")       /\ Start
     \/ Is("pull_got")    /\ Has("id") /\ Take(Ev.id)
     \/ Is("pull_got")    /\ ~Has("id") /\ pending # <<>> /\ Take(Head(pending))
     \/ Is("pull_wait")   /\ Wait
     \/ Is("pull_closed") /\ SeeClosed
     \/ Is("exec_begin")  /\ ExecBegin(Ev.id)
     \/ Is("exec_end")    /\ ExecEnd(Ev.id, Ev.err)
     \/ Is("on_error")    /\ OnError
     \/ Is("close")       /\ CloseQueue
     \/ Is("close_ret")   /\ CloseReturn
     \/ Is("ring_reset")  /\ ResetQueue
     \/ Is("quiesce")     /\ Quiescent /\ QInv
     \/ Is("close_call")  /\ UNCHANGED qvars
     \* the value returned to the caller must be what happened in the critical section
     \/ Is("push_ret")    /\ Ev.ok = (Ev.id \in Range(accepted)) /\ UNCHANGED qvars
     \/ Is("pull_ret")    /\ UNCHANGED qvars
     \/ Is("end")         /\ UNCHANGED qvars
  /\ QInvStep'

Next == TraceNext(ResetAct, StepAct, UNCHANGED qvars)
Init == TraceInit /\ QInit(1)
Spec == Init /\ [][Next]_<<tvars, qvars>>
=============================================================================
