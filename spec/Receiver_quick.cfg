SPECIFICATION Spec
CONSTANTS
  M = 16
  Sizes = {2, 4}
  Modes = {TRUE, FALSE}
  Starts = {0, 7, 14, 15}
  MaxLen = 5
  Window = 0
INVARIANT AInv
INVARIANT BImpliesA
INVARIANT Agreement
CHECK_DEADLOCK FALSE
