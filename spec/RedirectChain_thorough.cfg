SPECIFICATION Spec
CONSTANTS
  MaxHops = 5
INVARIANT NoDowngrade
INVARIANT RefusedRight
CHECK_DEADLOCK FALSE
