----------------------------- MODULE Packetizer -----------------------------
(***************************************************************************)
(* Level B model of the aggregating / fragmenting packetizer (rtph264 and  *)
(* rtph265 Encode; the single-unit fragmenters rtpvp8, rtpvp9,             *)
(* rtpfragmented, rtpklv, rtpmpeg1video, rtpmjpeg are the degenerate case  *)
(* AggHdr = PerUnit = 0 with one unit) over abstract unit SIZES, and       *)
(* generator of the frames replayed on every real encoder/decoder pair     *)
(* (C03, C06).                                                             *)
(*                                                                         *)
(*   batch := <<>>                                                         *)
(*   for each unit u:  if AggLen(batch + u) <= L then batch += u           *)
(*                     else flush(batch); batch := <<u>>                   *)
(*   flush(batch)                                                          *)
(*   flush: one unit  -> single packet if its size <= L (H265: < L),       *)
(*                       else fragments of at most L - FuHdr payload bytes *)
(*                       (the unit's own header, Consumed bytes, is        *)
(*                       carried by the fragment header)                   *)
(*          more units-> one aggregation packet of AggLen bytes            *)
(*                                                                         *)
(* The model works with a small limit L (20) so that every unit size       *)
(* a*L + b, a in 0..2, b in -8..8, is a distinct number; TLC checks for    *)
(* EVERY frame of up to MaxUnits such units that no packet exceeds L, that *)
(* every byte is carried exactly once and that units are never reordered,  *)
(* and exports the frames as (a, b) pairs which the harness rescales to    *)
(* each real format's limits.                                              *)
(***************************************************************************)
EXTENDS Naturals, Integers, Sequences, TLC, Json

CONSTANTS L,          \* payload size limit of the model
          AggHdr,     \* bytes of aggregation packet header
          PerUnit,    \* bytes of per-unit length prefix in an aggregation packet
          FuHdr,      \* bytes of fragment header
          Consumed,   \* bytes of the unit's own header that fragments do not repeat
          SingleLE,   \* TRUE: single packet when size <= L (H264); FALSE: size < L (H265)
          MaxUnits,
          SizeSet,    \* unit sizes explored
          FillMode,   \* TRUE: frames of 1..MaxUnits-1 small units (SmallSet) followed by ONE unit whose
                      \* size sweeps, byte by byte, the space the packet being filled has left
                      \* (L minus what the frame holds so far, -14..+2): the place where a unit
                      \* "just fits" or "just does not" depends on every header the format adds
          SmallSet,
          LaterBatch  \* TRUE: a third unit is explored only after <<L-1, small>> - the first unit is
                      \* flushed alone and the second and third meet every threshold of a LATER batch

VARIABLES units,      \* the frame: sequence of unit sizes
          beh

vars == <<units, beh>>

RECURSIVE Sum(_)
Sum(s) == IF s = <<>> THEN 0 ELSE Head(s) + Sum(Tail(s))

AggLen(batch) == AggHdr + Sum([i \in 1..Len(batch) |-> PerUnit + batch[i]])

\* packets produced for one batch: sequence of [size, bytes (unit bytes carried), kind]
Fragments(u) ==
  LET room == L - FuHdr
      body == u - Consumed
      n == (body + room - 1) \div room
  IN [i \in 1..n |-> [size |-> FuHdr + (IF i < n THEN room ELSE body - (n - 1) * room),
                      bytes |-> (IF i < n THEN room ELSE body - (n - 1) * room) + (IF i = 1 THEN Consumed ELSE 0),
                      kind |-> "fu"]]

Flush(batch) ==
  IF batch = <<>> THEN <<>>
  ELSE IF Len(batch) = 1 THEN
    IF (SingleLE /\ batch[1] <= L) \/ (~SingleLE /\ batch[1] < L)
    THEN << [size |-> batch[1], bytes |-> batch[1], kind |-> "single"] >>
    ELSE Fragments(batch[1])
  ELSE << [size |-> AggLen(batch), bytes |-> Sum(batch), kind |-> "agg"] >>

RECURSIVE EncodeFrom(_, _)
EncodeFrom(rest, batch) ==
  IF rest = <<>> THEN Flush(batch)
  ELSE IF AggLen(Append(batch, Head(rest))) <= L
       THEN EncodeFrom(Tail(rest), Append(batch, Head(rest)))
       ELSE Flush(batch) \o EncodeFrom(Tail(rest), <<Head(rest)>>)

Encode(us) == EncodeFrom(us, <<>>)

Init == units = <<>> /\ beh = ""

\* (a, b) form of a size for export:  size = a*L + b with b in -8..8
AB(sz) == LET a == (sz + 8) \div L IN [a |-> a, b |-> sz - a * L]

AddUnit ==
  /\ ~FillMode
  /\ Len(units) < MaxUnits
  /\ (LaterBatch /\ Len(units) = 2) => (units[1] = L - 1 /\ units[2] \in 2..8)
  /\ \E sz \in SizeSet :
       /\ units' = Append(units, sz)
       /\ beh' = ToJson([units |-> [i \in 1..Len(units') |-> AB(units'[i])],
                         npkts |-> Len(Encode(units'))])

\* fill frames: the last unit is given relative to the space left (r = 1: size = limit - sum of
\* the units before it + b)
Small(sz) == [a |-> 0, b |-> sz, r |-> 0]
AddSmall ==
  /\ FillMode /\ beh = "" /\ Len(units) < MaxUnits - 1
  /\ \E sz \in SmallSet : units' = Append(units, sz) /\ beh' = ""
AddLast ==
  /\ FillMode /\ beh = "" /\ Len(units) >= 1
  /\ \E d \in -14..2 :
       LET sz == L - Sum(units) + d IN
       /\ sz >= 1
       /\ units' = Append(units, sz)
       /\ beh' = ToJson([fill |-> TRUE,
                         units |-> [i \in 1..Len(units') |->
                                      IF i < Len(units') THEN Small(units'[i]) ELSE [a |-> 0, b |-> d, r |-> 1]],
                         npkts |-> Len(Encode(units'))])
Next == AddUnit \/ AddSmall \/ AddLast
Spec == Init /\ [][Next]_vars

\* size sets for the configurations
SizesAll == (2..8) \cup (12..28) \cup (32..48)
SizesAll265 == (3..8) \cup (12..28) \cup (32..48)
SmallSizes == {2, 3, 5}
NoSizes == {}
SizesEdge == {2, 3, 8, 12, 15, 16, 17, 18, 19, 20, 21, 22, 23, 28, 32, 37, 38, 39, 40, 41, 42, 48}

\* ---- what TLC checks on the model --------------------------------------------
Pkts == Encode(units)
SizeOK == \A i \in 1..Len(Pkts) : Pkts[i].size <= L /\ Pkts[i].size >= 1
Conserved == Sum([i \in 1..Len(Pkts) |-> Pkts[i].bytes]) = Sum(units)
NonEmpty == units # <<>> => Len(Pkts) >= 1
=============================================================================
