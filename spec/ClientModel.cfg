SPECIFICATION Spec
CONSTANTS
  Behaviours <- AllBehaviours
  Configs <- AllConfigs
INVARIANT NoStuckCall
INVARIANT FailFast
PROPERTY CallsReturn
CHECK_DEADLOCK FALSE
