------------------------------ MODULE TimerProp ------------------------------
(***************************************************************************)
(* Level A (property) specification for the timeout clause of C02: a       *)
(* session whose peer keeps following the protocol is never expired; one   *)
(* whose peer goes silent is closed within the configured timeout plus one *)
(* check period.                                                           *)
(*   Live(kind, ms, expired)     a peer that follows the protocol (library *)
(*        client with its own keep-alives / RTCP / media) was observed for *)
(*        ms milliseconds                                                  *)
(*   Silent(kind, timeoutMs, periodMs, closedAfterMs)   the peer went      *)
(*        silent; closedAfterMs = when the session's close notification    *)
(*        came (a large number if it never came)                           *)
(* The code stamps UDP activity with one-second resolution; the bound      *)
(* therefore allows timeout + period + 1000 ms + scheduling slack.         *)
(***************************************************************************)
EXTENDS Naturals
CONSTANT SlackMs
VARIABLES nlive, nsilent
tpvars == <<nlive, nsilent>>
TPInit == nlive = 0 /\ nsilent = 0
TPReset == nlive' = 0 /\ nsilent' = 0
Live(kind, ms, expired) == ~expired /\ nlive' = nlive + 1 /\ UNCHANGED nsilent
Silent(kind, timeoutMs, periodMs, closedAfterMs) ==
  /\ closedAfterMs <= timeoutMs + periodMs + 1000 + SlackMs
  /\ nsilent' = nsilent + 1 /\ UNCHANGED nlive
=============================================================================
