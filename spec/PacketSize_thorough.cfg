SPECIFICATION Spec
CONSTANTS
  Maxima <- MaximaThorough
  Span = 20
INVARIANT Sound
CHECK_DEADLOCK FALSE
