---------------------------- MODULE ServerSession ----------------------------
(***************************************************************************)
(* Level B (implementation-shaped) model of one control connection talking *)
(* to the server: ServerConn.handleRequestInner / handleRequestInSession,   *)
(* Server.findOrCreateSession and ServerSession.handleRequestInner, branch  *)
(* by branch, for requests that are well-formed RTSP.                      *)
(*                                                                         *)
(* The model predicts, for every request, the status class, the session    *)
(* state afterwards and whether the server closes the connection (any      *)
(* handler error is followed by a close).  It is used to                   *)
(*  - enumerate EVERY request sequence up to MaxReq (a behaviour ends      *)
(*    early when the server closes the connection), exported as            *)
(*    model-based tests for a real server,                                 *)
(*  - check that what the implementation-shaped model does is accepted by  *)
(*    the property specification SessionProp (B => A).                     *)
(***************************************************************************)
EXTENDS SessionProp, TLC, Json

CONSTANTS MaxReq,
          UDPEnabled,               \* server offers UDP
          McastEnabled,             \* server offers UDP multicast delivery
          Protos,                   \* transports requested in SETUP
          HasRecord, HasPlay, HasPause,   \* handler subsets the application implements
          Tracks,                   \* track indexes of the stream / announced description
          MethodSet,                \* methods explored (Methods for everything)
          ShSet                     \* Session header variants explored

Methods == {"OPTIONS", "DESCRIBE", "ANNOUNCE", "SETUP", "PLAY", "RECORD", "PAUSE",
            "TEARDOWN", "GET_PARAMETER", "SET_PARAMETER"}

VARIABLES st,        \* session object state ("none": no session)
          idKnown,   \* the peer has seen the session id (ANNOUNCE responses do not carry it)
          setupped,  \* tracks set up
          proto,     \* "none" | "udp" | "tcp" | "mcast" (UDP multicast delivery)
          alive,     \* connection still open
          n, hist, beh

bvars == <<st, idKnown, setupped, proto, alive, n, hist, beh>>

linked == st # "none"

\* a prediction: [cls, st1, close, id, setupped, proto]
P(cls, st1, close, id, su, pr) ==
  [cls |-> cls, st1 |-> st1, close |-> close, id |-> id, su |-> su, pr |-> pr]
Same(cls, close) == P(cls, st, close, idKnown, setupped, proto)
NotImpl == Same("e501", FALSE)
\* a session-level request that fails: if the session was created by this very
\* request it exists in `initial` (and dies with the connection)
Fail400 == P("e400", IF st = "none" THEN "initial" ELSE st, TRUE, idKnown, setupped, proto)

\* wrong / unknown Session header
Unknown == IF linked THEN Same("e400", TRUE) ELSE Same("e454", TRUE)

InSession(m, track, pr, mode) ==
  LET s0 == IF st = "none" THEN "initial" ELSE st IN
  CASE m = "OPTIONS" -> Same("ok", FALSE)
    [] m = "ANNOUNCE" ->
         IF s0 # "initial" THEN Fail400
         ELSE P("ok", "preRecord", FALSE, idKnown, setupped, proto)
    [] m = "SETUP" ->
         IF s0 \in {"play", "record"} THEN Fail400
         ELSE IF (pr = "udp" /\ ~UDPEnabled) \/ (pr = "mcast" /\ ~McastEnabled)
              THEN P("e461", s0, FALSE, TRUE, setupped, proto)
         ELSE IF proto # "none" /\ proto # pr THEN Fail400
         ELSE IF s0 \in {"initial", "prePlay"} /\ mode = "record" THEN Fail400
         ELSE IF s0 = "preRecord" /\ pr = "mcast"             \* nobody records to a multicast group
              THEN P("e461", s0, FALSE, TRUE, setupped, proto)
         ELSE IF s0 = "preRecord" /\ mode # "record" THEN Fail400
         ELSE IF track \in setupped THEN Fail400
         ELSE P("ok", IF s0 = "preRecord" THEN "preRecord" ELSE "prePlay", FALSE, TRUE,
                setupped \cup {track}, pr)
    [] m = "PLAY" ->
         IF s0 \notin {"prePlay", "play"} THEN Fail400
         ELSE P("ok", "play", FALSE, idKnown, setupped, proto)
    [] m = "RECORD" ->
         IF s0 # "preRecord" THEN Fail400
         ELSE IF setupped # Tracks THEN Fail400
         ELSE P("ok", "record", FALSE, idKnown, setupped, proto)
    [] m = "PAUSE" ->
         IF s0 = "initial" THEN Fail400
         ELSE P("ok", IF s0 = "play" THEN "prePlay" ELSE IF s0 = "record" THEN "preRecord" ELSE s0,
                FALSE, idKnown, setupped, proto)
    [] m = "TEARDOWN" -> P("ok", s0, FALSE, FALSE, {}, "none")   \* the session ends
    [] m = "GET_PARAMETER" -> Same("ok", FALSE)
    [] OTHER -> NotImpl                                            \* SET_PARAMETER without handler

Predict(m, sh, track, pr, mode) ==
  CASE m = "OPTIONS" ->
         IF sh = "none" THEN Same("ok", FALSE)
         ELSE IF sh = "unknown" THEN Unknown ELSE InSession(m, track, pr, mode)
    [] m = "DESCRIBE" -> IF HasPlay THEN Same("ok", FALSE) ELSE NotImpl
    [] m \in {"ANNOUNCE", "SETUP"} ->
         IF (m = "ANNOUNCE" /\ ~HasRecord) THEN NotImpl
         ELSE IF linked /\ sh = "unknown" THEN Same("e400", TRUE)
         ELSE InSession(m, track, pr, mode)
    [] m \in {"PLAY", "RECORD", "PAUSE"} ->
         IF sh = "none" THEN NotImpl
         ELSE IF (m = "PLAY" /\ ~HasPlay) \/ (m = "RECORD" /\ ~HasRecord) \/ (m = "PAUSE" /\ ~HasPause)
              THEN NotImpl
         ELSE IF sh = "unknown" THEN Unknown ELSE InSession(m, track, pr, mode)
    [] OTHER ->   \* TEARDOWN, GET_PARAMETER, SET_PARAMETER
         IF sh = "none" THEN NotImpl
         ELSE IF sh = "unknown" THEN Unknown ELSE InSession(m, track, pr, mode)

AllSh == {"none", "right", "unknown"}
ProtosUT == {"udp", "tcp"}
ProtosAll == {"udp", "tcp", "mcast"}
ProtosTM == {"tcp", "mcast"}
MainMethods == {"OPTIONS", "ANNOUNCE", "SETUP", "PLAY", "RECORD", "PAUSE", "TEARDOWN"}
NoUnknown == {"none", "right"}

StatusOf(cls) == CASE cls = "ok" -> 200 [] cls = "e400" -> 400 [] cls = "e454" -> 454
                   [] cls = "e461" -> 461 [] OTHER -> 501

MainPath == {"ANNOUNCE", "SETUP", "PLAY", "RECORD", "PAUSE", "TEARDOWN"}

Init ==
  /\ SInit
  /\ st = "none" /\ idKnown = FALSE /\ setupped = {} /\ proto = "none" /\ alive = TRUE
  /\ n = 0 /\ hist = <<>> /\ beh = ""

\* parameters that matter only for SETUP are fixed otherwise, to avoid duplicate behaviours
Params(m) == IF m = "SETUP"
             THEN {<<t, p, md>> : t \in Tracks, p \in Protos, md \in {"play", "record"}}
             ELSE {<<0, "tcp", "play">>}

Request(m, sh, prm) ==
  LET pd == Predict(m, sh, prm[1], prm[2], prm[3])
      ended == m = "TEARDOWN" /\ pd.cls = "ok"
      exp == IF pd.cls = "ok" /\ m \in MainPath THEN "ok" ELSE "any"
      rec == [m |-> m, sh |-> sh, track |-> prm[1], proto |-> prm[2], mode |-> prm[3],
              cls |-> pd.cls, st1 |-> pd.st1, close |-> pd.close]
  IN
  /\ alive /\ n < MaxReq
  /\ (sh = "right") => idKnown
  \* Level A step as the model predicts it ...
  /\ Req(m, sh, 1, TRUE, StatusOf(pd.cls), pd.st1, exp, prm[2] \in {"udp", "mcast"})
  \* ... followed at once by the session's end when it was torn down (collapsed here;
  \* in real traces SessOpen / SessClose are separate, asynchronous notifications)
  /\ st' = IF ended THEN "none" ELSE pd.st1
  /\ idKnown' = pd.id /\ setupped' = pd.su /\ proto' = pd.pr
  /\ alive' = ~pd.close
  /\ n' = n + 1
  /\ hist' = Append(hist, rec)
  /\ beh' = IF n' = MaxReq \/ pd.close
            THEN ToJson([ntracks |-> Cardinality(Tracks), udp |-> UDPEnabled, mcast |-> McastEnabled, rec |-> HasRecord, play |-> HasPlay, pause |-> HasPause,
                         reqs |-> hist'])
            ELSE ""

\* after a TEARDOWN the session object is gone: Level A sees SessClose
Ended == /\ alive /\ st = "none" /\ state # "none" /\ tornDown
         /\ closedN' = closedN + 1 /\ state' = "none" /\ udp' = FALSE /\ tornDown' = FALSE
         /\ UNCHANGED <<opened, connGone, cleanup, pend, endedIn, unjust, bvars>>

\* Level A's SessOpen, when the model's session comes into being
Opened == /\ st # "none" /\ opened = closedN /\ SessOpen /\ UNCHANGED bvars

Next ==
  \/ \E m \in MethodSet, sh \in ShSet : \E prm \in Params(m) :
        Request(m, sh, prm)
  \/ Ended
Spec == Init /\ [][Next]_<<svars, bvars>>

\* B => A: every request the model can issue next is answered in a way Level A accepts
BImpliesA ==
  (alive /\ n < MaxReq /\ ~(st = "none" /\ state # "none")) =>
    \A m \in MethodSet, sh \in ShSet : \A prm \in Params(m) :
      (sh = "right" => idKnown) =>
        LET pd == Predict(m, sh, prm[1], prm[2], prm[3])
            exp == IF pd.cls = "ok" /\ m \in MainPath THEN "ok" ELSE "any"
        IN ENABLED Req(m, sh, 1, TRUE, StatusOf(pd.cls), pd.st1, exp, prm[2] \in {"udp", "mcast"})

\* the two levels agree on the state
Agreement == (st = "none" /\ state # "none" /\ tornDown) \/ state = st \/ (state = "initial" /\ st = "initial")
=============================================================================
