SPECIFICATION Spec
CONSTANT MaxCloseMs = 6000
CHECK_DEADLOCK FALSE
INVARIANT TraceConsumed
POSTCONDITION TraceComplete
