------------------------------ MODULE TimerTrace ------------------------------
EXTENDS TraceIO, TimerProp
ResetAct == TPReset
StepAct ==
  \/ Is("live")   /\ Live(Ev.kind, Ev.ms, Ev.expired)
  \/ Is("silent") /\ Silent(Ev.kind, Ev.timeout, Ev.period, Ev.closed)
  \/ Is("end")    /\ UNCHANGED tpvars
Next == TraceNext(ResetAct, StepAct, UNCHANGED tpvars)
Init == TraceInit /\ TPInit
Spec == Init /\ [][Next]_<<tvars, tpvars>>
=============================================================================
