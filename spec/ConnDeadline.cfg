SPECIFICATION Spec
CONSTANTS
  T = 10
  Gaps = {3, 4, 7}
  MaxSigns = 3
INVARIANT LiveNeverExpired
CHECK_DEADLOCK FALSE
