SPECIFICATION Spec
CONSTANTS
  MaxReq = 3
  UDPEnabled = FALSE
  HasRecord = TRUE
  HasPlay = TRUE
  HasPause = TRUE
  Tracks = {0, 1}
INVARIANT BImpliesA
INVARIANT Agreement
CHECK_DEADLOCK FALSE
