--------------------------------- MODULE URLs ---------------------------------
(***************************************************************************)
(* Level B model of control-URL resolution on the client                   *)
(* (description.Media.URL) and URL analysis on the server                  *)
(* (getPathAndQuery, getPathAndQueryAndTrackID) over TOKEN strings:        *)
(*   "a" an ordinary run of characters, "=" "&" literal, "/" a slash,      *)
(*   "T" the text "trackID=", "7" a digit.                                 *)
(* A stream URL = path (segments, each a non-empty token string without    *)
(* "/") + query (a token string, possibly empty, not ending in "/").       *)
(*                                                                         *)
(* Client, SETUP of media i (control "trackID=i", relative; the DESCRIBE   *)
(* response carried Content-Base = URL + "/"):                             *)
(*     request URL = Content-Base + "trackID=i"                            *)
(*     i.e. the control lands after the query if there is one, otherwise   *)
(*     after the path.                                                     *)
(* Server: look for the LAST "/trackID=" in the query; else in the path;   *)
(*     what precedes it is the stream's query resp. path.                  *)
(* PLAY / DESCRIBE: URL or URL + "/"; a trailing "/" of the query (resp.   *)
(*     path) is removed.                                                   *)
(* TLC checks for every URL and every media index that the server recovers *)
(* exactly the original path, query and index, and exports the URLs.       *)
(***************************************************************************)
EXTENDS Naturals, Sequences, TLC, Json

CONSTANTS MaxSegs, MaxSegLen, MaxQueryLen, PathTokens, QueryTokens

VARIABLES url, beh
vars == <<url, beh>>

\* ---- token-string helpers ------------------------------------------------------
RECURSIVE JoinPath(_)
JoinPath(segs) == IF segs = <<>> THEN <<>> ELSE <<"/">> \o Head(segs) \o JoinPath(Tail(segs))

\* last index i such that s[i] = "/" and s[i+1] = "T", 0 if none
RECURSIVE LastTrack(_, _)
LastTrack(s, i) == IF i < 1 THEN 0
                   ELSE IF s[i] = "/" /\ s[i + 1] = "T" THEN i ELSE LastTrack(s, i - 1)
FindTrack(s) == IF Len(s) < 2 THEN 0 ELSE LastTrack(s, Len(s) - 1)

\* ---- client ----------------------------------------------------------------------
\* request URL of SETUP for media index digits d (a token string such as <<"7">>)
SetupURL(u, d) ==
  IF u.q # <<>> THEN [p |-> JoinPath(u.segs), q |-> u.q \o <<"/", "T">> \o d]
  ELSE [p |-> JoinPath(u.segs) \o <<"/", "T">> \o d, q |-> <<>>]

\* request URL of PLAY / PAUSE / TEARDOWN: the Content-Base (URL + "/")
PlayURL(u) ==
  IF u.q # <<>> THEN [p |-> JoinPath(u.segs), q |-> u.q \o <<"/">>]
  ELSE [p |-> JoinPath(u.segs) \o <<"/">>, q |-> <<>>]

\* ---- server ----------------------------------------------------------------------
SplitSetup(r) ==
  LET iq == FindTrack(r.q) IN
  IF iq > 0 THEN [p |-> r.p, q |-> SubSeq(r.q, 1, iq - 1), t |-> SubSeq(r.q, iq + 2, Len(r.q))]
  ELSE LET ip == FindTrack(r.p) IN
       IF ip > 0 THEN [p |-> SubSeq(r.p, 1, ip - 1), q |-> r.q, t |-> SubSeq(r.p, ip + 2, Len(r.p))]
       ELSE [p |-> r.p, q |-> r.q, t |-> <<"?">>]

SplitPlay(r) ==
  IF r.q # <<>> /\ r.q[Len(r.q)] = "/" THEN [p |-> r.p, q |-> SubSeq(r.q, 1, Len(r.q) - 1)]
  ELSE IF Len(r.p) > 1 /\ r.p[Len(r.p)] = "/" THEN [p |-> SubSeq(r.p, 1, Len(r.p) - 1), q |-> r.q]
  ELSE [p |-> r.p, q |-> r.q]

\* ---- the property on the model ---------------------------------------------------
Indexes == {<<"0">>, <<"1">>, <<"1", "2">>}

Inverse(u) ==
  /\ \A d \in Indexes :
       LET s == SplitSetup(SetupURL(u, d)) IN s.p = JoinPath(u.segs) /\ s.q = u.q /\ s.t = d
  /\ LET s == SplitPlay(PlayURL(u)) IN s.p = JoinPath(u.segs) /\ s.q = u.q
  /\ LET s == SplitPlay([p |-> JoinPath(u.segs), q |-> u.q]) IN s.p = JoinPath(u.segs) /\ s.q = u.q

\* ---- enumeration -------------------------------------------------------------------
SegSet == UNION {[1..n -> PathTokens] : n \in 1..MaxSegLen}
PathSet == UNION {[1..n -> SegSet] : n \in 1..MaxSegs}
QuerySet == {<<>>} \cup {q \in UNION {[1..n -> QueryTokens] : n \in 1..MaxQueryLen} : q[Len(q)] # "/" /\ q[1] # "/"}

Init == url = [segs |-> <<>>, q |-> <<>>] /\ beh = ""
Pick == /\ beh = ""
        /\ \E ps \in PathSet, q \in QuerySet :
             /\ url' = [segs |-> ps, q |-> q]
             /\ beh' = ToJson([segs |-> ps, q |-> q])
Spec == Init /\ [][Pick]_vars

InverseHolds == url.segs # <<>> => Inverse(url)

PT == {"a", "T", "7", "=", "&"}
QT == {"a", "T", "7", "=", "&", "/"}
=============================================================================
