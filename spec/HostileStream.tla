---------------------------- MODULE HostileStream ----------------------------
(***************************************************************************)
(* Level B model for C08: a reassembling depacketizer with a frame-size    *)
(* cap under HOSTILE packet classes, and generator of the class histories  *)
(* replayed (scaled to real sizes) on every real decoder.                  *)
(*                                                                         *)
(* Sizes are in packets.  The decoder keeps `retained` packets:            *)
(*   start   : discard, keep this one                                      *)
(*   middle  : nothing kept -> error; else keep it; above Cap -> discard   *)
(*   end     : nothing kept -> error; else return retained + 1, discard    *)
(*   single  : return it                                                   *)
(*   garbage classes (trunc, random, hdrkeep, bitflip): may act as any of  *)
(*             the above or be refused - all outcomes are explored         *)
(*   sameseq : a middle fragment with a stale sequence number: discard     *)
(*   newts   : a start fragment of another frame                           *)
(*   nomark  : the packets of a valid frame in order, marker bit cleared   *)
(*   allmark : the same with the marker bit set on every packet            *)
(*   fillend : start, as many middle fragments as fit under the cap, then   *)
(*             the fragment that ends the frame and crosses the cap        *)
(*   quirk   : a single-packet unit with an Annex-B start code spliced into *)
(*             its payload (some decoders switch to a tolerant mode for    *)
(*             the rest of the stream when they see one)                   *)
(*   hdronly : a middle fragment cut right after its payload header: it    *)
(*             adds no data (Middle with nothing to keep, or refused)      *)
(* TLC checks  retained <= Cap + 1  and  returned <= Cap + 1  in every     *)
(* reachable state, for every class history up to MaxLen.                  *)
(***************************************************************************)
EXTENDS Naturals, Sequences, TLC, Json

CONSTANTS Cap, MaxLen, Classes

VARIABLES retained, lastOut, hist, beh
vars == <<retained, lastOut, hist, beh>>

Init == retained = 0 /\ lastOut = 0 /\ hist = <<>> /\ beh = ""

Start   == retained' = 1 /\ lastOut' = 0
Middle  == IF retained = 0 THEN UNCHANGED retained /\ lastOut' = 0
           ELSE IF retained + 1 > Cap THEN retained' = 0 /\ lastOut' = 0
           ELSE retained' = retained + 1 /\ lastOut' = 0
End     == IF retained = 0 THEN UNCHANGED retained /\ lastOut' = 0
           ELSE retained' = 0 /\ lastOut' = retained + 1
Single  == retained' = 0 /\ lastOut' = 1
Refuse  == retained' = 0 /\ lastOut' = 0

React(c) ==
  CASE c \in {"start", "newts"} -> Start
    [] c = "middle" -> Middle
    [] c = "end" -> End
    [] c = "single" -> Single
    [] c = "sameseq" -> Refuse
    [] c \in {"valid", "nomark"} -> (Start \/ Middle \/ End)
    [] c = "allmark" -> (Start \/ Middle \/ End \/ Single)
    [] c = "quirk" -> (Single \/ Refuse)
    [] c = "fillend" -> (End \/ Refuse)
    [] c = "hdronly" -> (Refuse \/ (UNCHANGED retained /\ lastOut' = 0))
    [] OTHER -> (Start \/ Middle \/ End \/ Single \/ Refuse)     \* garbage

Step(c) ==
  /\ Len(hist) < MaxLen
  /\ React(c)
  /\ hist' = Append(hist, c)
  /\ beh' = ToJson([classes |-> hist'])

Next == \E c \in Classes : Step(c)
Spec == Init /\ [][Next]_vars

Bounded == retained <= Cap + 1 /\ lastOut <= Cap + 1

AllClasses == {"start", "middle", "end", "single", "valid", "trunc", "random", "hdrkeep",
               "bitflip", "sameseq", "newts", "nomark", "allmark", "hdronly", "fillend", "quirk"}
=============================================================================
