-------------------------- MODULE TimestampsTrace --------------------------
EXTENDS TraceIO, TimestampsProp
ResetAct == TReset(Ev.rates, Ev.pl)
StepAct ==
  \/ Is("first")  /\ First(Ev.tr, Ev.ts, Ev.pts, Ev.at)
  \/ Is("dec")    /\ Dec(Ev.tr, Ev.ts, Ev.pts, Ev.at)
  \/ Is("late")   /\ Late(Ev.tr, Ev.ts, Ev.pts, Ev.at)
  \/ Is("ntpmap") /\ NtpMap(Ev.rtp, Ev.t)
  \/ Is("ntpget") /\ NtpGet(Ev.rtp, Ev.t, Ev.rem)
  \/ Is("ntpinv") /\ NtpInv(Ev.diff)
  \/ Is("ntpe2e") /\ NtpE2E(Ev.known, Ev.diffms)
  \/ Is("end")    /\ UNCHANGED tvarsA
Next == TraceNext(ResetAct, StepAct, UNCHANGED tvarsA)
Init == TraceInit /\ TInit
Spec == Init /\ [][Next]_<<tvars, tvarsA>>
=============================================================================
