----------------------------- MODULE HostileProp -----------------------------
(***************************************************************************)
(* Level A (property) specification for C11: the server survives hostile   *)
(* control connections and cleans up after them.                           *)
(*                                                                         *)
(* One trace = one hostile connection (possibly after a valid prefix of a  *)
(* conversation) against a real server, with a well-behaved probe          *)
(* connection after every hostile step.                                    *)
(*   Hostile(cls, outcome)   a hostile input of class cls was sent;        *)
(*       outcome = "response" (answered), "closed" (connection ended by    *)
(*       the server), "open" (still open and silent when the harness       *)
(*       stopped waiting - allowed only before the idle timeout)           *)
(*   Expired(closed)         the harness waited for the server's idle /    *)
(*       read timeout (plus slack) on a connection left open: it must have *)
(*       been closed by then                                               *)
(*   Probe(ok)               a fresh connection completed OPTIONS+DESCRIBE *)
(*   ConnOpen / ConnClose / SessOpen / SessClose  notifications            *)
(*   Census(conns, sessions, udp, readers, goroutines)  after the hostile  *)
(*       connection ended and the harness waited (bounded): what is still  *)
(*       registered in the server for it                                   *)
(*   Crash is an event no action accepts.                                  *)
(***************************************************************************)
EXTENDS Naturals

VARIABLES copen, cclose, sopen, sclose
hvars2 == <<copen, cclose, sopen, sclose>>
HInit2 == copen = 0 /\ cclose = 0 /\ sopen = 0 /\ sclose = 0
HReset2 == copen' = 0 /\ cclose' = 0 /\ sopen' = 0 /\ sclose' = 0

Hostile(cls, outcome) == outcome \in {"response", "closed", "open"} /\ UNCHANGED hvars2

\* answered or closed within its timeouts
Expired(closed) == closed /\ UNCHANGED hvars2

\* the server keeps serving other connections correctly
Probe(ok) == ok /\ UNCHANGED hvars2

ConnOpen == copen' = copen + 1 /\ UNCHANGED <<cclose, sopen, sclose>>
ConnClose == cclose < copen /\ cclose' = cclose + 1 /\ UNCHANGED <<copen, sopen, sclose>>
SessOpen == sopen' = sopen + 1 /\ UNCHANGED <<copen, cclose, sclose>>
SessClose == sclose < sopen /\ sclose' = sclose + 1 /\ UNCHANGED <<copen, cclose, sopen>>

\* everything tied to the hostile connection is released
Census(conns, sessions, udp, readers, goroutines) ==
  /\ conns = 0 /\ sessions = 0 /\ udp = 0 /\ readers = 0 /\ goroutines = 0
  /\ cclose = copen /\ sclose = sopen
  /\ UNCHANGED hvars2
=============================================================================
