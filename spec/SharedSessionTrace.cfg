SPECIFICATION Spec
CHECK_DEADLOCK FALSE
INVARIANT TraceConsumed
POSTCONDITION TraceComplete
