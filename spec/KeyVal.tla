------------------------------- MODULE KeyVal -------------------------------
(***************************************************************************)
(* Level B model of the key/value tokenizer of pkg/headers (keyValParse:   *)
(* readKey, readValue, separator and space skipping) and of a header's     *)
(* semantics as a FOLD over the parsed pairs, over a token alphabet:       *)
(*    "A" "B"   two keys that exclude each other (unicast / multicast,     *)
(*              RTP/AVP / RTP/AVP/TCP, ...)                                *)
(*    "N"       a key whose value must be numeric (ttl, port, ...)         *)
(*    "X"       an unknown key                                             *)
(*    "="  ";"  key/value and pair separators,  "q" a double quote,        *)
(*    "s" a space,  "1" a numeric value character,  "z" a non-numeric one  *)
(* TLC enumerates every string up to MaxLen, computes the parse result,    *)
(* and checks CONFLUENCE: the folded value must not depend on the order in *)
(* which the pairs are visited.  With Ordered = FALSE (a Go map: the       *)
(* pinned commit) TLC finds the order dependence for strings with          *)
(* conflicting keys or two malformed fields; with Ordered = TRUE (pairs    *)
(* visited in input order) the fold is a function of the string.           *)
(* Every string is exported and parsed repeatedly by the real code.        *)
(***************************************************************************)
EXTENDS Naturals, Sequences, FiniteSets, TLC, Json

CONSTANTS MaxLen, Ordered, Alphabet

VARIABLES str, beh
vars == <<str, beh>>

IsKeyChar(c) == c \notin {"=", ";"}

\* readKey: longest prefix without '=' and separator
RECURSIVE ReadKey(_)
ReadKey(s) == IF s = <<>> \/ ~IsKeyChar(Head(s)) THEN <<>> ELSE <<Head(s)>> \o ReadKey(Tail(s))

\* position of the closing quote in s (1-based), 0 if none
RECURSIVE QuoteEnd(_, _)
QuoteEnd(s, i) == IF i > Len(s) THEN 0 ELSE IF s[i] = "q" THEN i ELSE QuoteEnd(s, i + 1)

RECURSIVE UntilSep(_)
UntilSep(s) == IF s = <<>> \/ Head(s) = ";" THEN <<>> ELSE <<Head(s)>> \o UntilSep(Tail(s))

Drop(s, n) == SubSeq(s, n + 1, Len(s))

RECURSIVE SkipSpaces(_)
SkipSpaces(s) == IF s # <<>> /\ Head(s) = "s" THEN SkipSpaces(Tail(s)) ELSE s

\* keyValParse: [ok, ps] with ps the sequence of <<key, value>> in input order
Err == [ok |-> FALSE, ps |-> <<>>]
Cons(p, rest) == IF rest.ok THEN [ok |-> TRUE, ps |-> <<p>> \o rest.ps] ELSE Err
AfterValue(r3) == SkipSpaces(IF r3 # <<>> /\ Head(r3) = ";" THEN Tail(r3) ELSE r3)

RECURSIVE ParsePairs(_)
ParsePairs(s) ==
  IF s = <<>> THEN [ok |-> TRUE, ps |-> <<>>]
  ELSE
    LET k == ReadKey(s)
        r1 == Drop(s, Len(k))
    IN IF r1 # <<>> /\ Head(r1) = "="
       THEN LET r2 == Tail(r1) IN
            IF r2 # <<>> /\ Head(r2) = "q"
            THEN LET e == QuoteEnd(r2, 2) IN
                 IF e = 0 THEN Err                                   \* apexes not closed
                 ELSE Cons(<<k, SubSeq(r2, 2, e - 1)>>, ParsePairs(AfterValue(Drop(r2, e))))
            ELSE LET v == UntilSep(r2) IN
                 Cons(<<k, v>>, ParsePairs(AfterValue(Drop(r2, Len(v)))))
       ELSE Cons(<<k, <<>>>>, ParsePairs(AfterValue(r1)))

\* later occurrences of a key replace the value (map semantics), position of the first kept
RECURSIVE Dedup(_, _)
Dedup(ps, acc) ==
  IF ps = <<>> THEN acc
  ELSE LET p == Head(ps)
           idx == {i \in 1..Len(acc) : acc[i][1] = p[1]}
       IN Dedup(Tail(ps), IF idx = {} THEN Append(acc, p)
                          ELSE [i \in 1..Len(acc) |-> IF i \in idx THEN p ELSE acc[i]])

IsNumeric(v) == v # <<>> /\ \A i \in 1..Len(v) : v[i] = "1"

\* the header's semantics: a fold; state [sel, num, err]
Apply(st, p) ==
  IF st.err # "" THEN st
  ELSE CASE p[1] = <<"A">> -> [st EXCEPT !.sel = "A"]
         [] p[1] = <<"B">> -> [st EXCEPT !.sel = "B"]
         [] p[1] = <<"N">> -> IF IsNumeric(p[2]) THEN [st EXCEPT !.num = Len(p[2])]
                               ELSE [st EXCEPT !.err = "N"]
         [] p[1] = <<"X">> -> IF p[2] = <<"z">> THEN [st EXCEPT !.err = "X"] ELSE st
         [] OTHER -> st

RECURSIVE Fold(_, _)
Fold(st, ps) == IF ps = <<>> THEN st ELSE Fold(Apply(st, Head(ps)), Tail(ps))

St0 == [sel |-> "", num |-> 0, err |-> ""]

\* all orders in which a map of these pairs may be visited
Perms(ps) == {f \in [1..Len(ps) -> 1..Len(ps)] : \A i, j \in 1..Len(ps) : i # j => f[i] # f[j]}
Results(ps) ==
  IF Ordered THEN {Fold(St0, ps)}
  ELSE {Fold(St0, [i \in 1..Len(ps) |-> ps[f[i]]]) : f \in Perms(ps)}

Parsed(s) == LET r == ParsePairs(s) IN [ok |-> r.ok, ps |-> Dedup(r.ps, <<>>)]

Deterministic(s) == LET r == Parsed(s) IN ~r.ok \/ Cardinality(Results(r.ps)) = 1

Init == str = <<>> /\ beh = ""
Extend == /\ Len(str) < MaxLen
          /\ \E c \in Alphabet :
               /\ str' = Append(str, c)
               /\ beh' = ToJson([s |-> str', det |-> Deterministic(str'),
                                 err |-> ~Parsed(str').ok])
Next == Extend
Spec == Init /\ [][Next]_vars

\* the property on the model: parsing is a function of the input
Confluent == Deterministic(str)

FullAlphabet == {"A", "B", "N", "X", "=", ";", "q", "s", "1", "z"}
=============================================================================
