------------------------------- MODULE URLProp -------------------------------
(***************************************************************************)
(* Level A (property) specification for C20: URL fidelity between client   *)
(* and server.  One trace = one stream URL (path, query, optional          *)
(* user-info) driven end to end by the real client against the real server *)
(* (describe, setup of every media, play - or announce, setup, record).    *)
(*   Step(op, pathOk, queryOk, mediaOk): the server handler for `op` ran;  *)
(*        pathOk / queryOk: the Path / Query it was given equal the        *)
(*        original URL's; mediaOk: (SETUP only) the media it configured is *)
(*        the one the client issued the SETUP for.                         *)
(*   Line(hasCreds): a request line seen on the wire.                      *)
(*   Fail(op): a client call failed.                                       *)
(***************************************************************************)
EXTENDS Naturals

VARIABLES nsteps, nsetups
uvars == <<nsteps, nsetups>>
UInit == nsteps = 0 /\ nsetups = 0
UReset == nsteps' = 0 /\ nsetups' = 0

Step(op, pathOk, queryOk, mediaOk) ==
  /\ pathOk /\ queryOk /\ mediaOk
  /\ nsteps' = nsteps + 1
  /\ nsetups' = IF op = "setup" THEN nsetups + 1 ELSE nsetups

\* credentials present in the URL never appear in a request line
Line(hasCreds) == ~hasCreds /\ UNCHANGED uvars

\* with a valid URL every call of the conversation succeeds
Fail(op) == FALSE /\ UNCHANGED uvars

\* the conversation reached the handlers: describe/announce + one setup per media + play/record
Done(nmedias) == nsetups = nmedias /\ nsteps = nmedias + 2 /\ UNCHANGED uvars
=============================================================================
