SPECIFICATION Spec
CONSTANTS
  W = 16
  Inits = {0, 1, 7, 8, 9, 15}
  Steps <- StepsThorough
  MaxLen = 5
  LateAfter = 2
INVARIANT Continuation
INVARIANT BImpliesA
CHECK_DEADLOCK FALSE
