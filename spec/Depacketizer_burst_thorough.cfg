SPECIFICATION Spec
CONSTANTS
  Shapes <- ShapesBurst
  MaxFaults = 1
  MaxBurst = 7
INVARIANT BImpliesA
INVARIANT Settled
CHECK_DEADLOCK FALSE
