---------------------------- MODULE ConnDeadline ----------------------------
(***************************************************************************)
(* Level B discrete-time model of the read deadline of a connection that   *)
(* carries a playing or recording session over TCP                         *)
(* (serverConnReader.readFuncTCP): before EVERY read the deadline is set   *)
(* to now + T (T = IdleTimeout while playing, ReadTimeout while            *)
(* recording); a read that returns nothing by the deadline ends the        *)
(* connection and, with it, the session. Time in tenths of T.              *)
(* The peer gives a sign of life (an interleaved frame, a request) after   *)
(* gaps chosen from Gaps, all shorter than T. TLC checks that such a peer  *)
(* is never expired whatever the gaps, that a silent one is expired at T,  *)
(* and exports the gap sequences; the driver c02t replays them in real     *)
(* time against a real server (TimerProp!Live).                            *)
(***************************************************************************)
EXTENDS Naturals, Sequences, TLC, Json

CONSTANTS T,         \* the timeout, in ticks
          Gaps,      \* possible gaps between two signs of life, in ticks (each < T)
          MaxSigns   \* signs of life per exported schedule

VARIABLES now, deadline, nextSign, dead, hist, beh
vars == <<now, deadline, nextSign, dead, hist, beh>>

Init == /\ now = 0 /\ deadline = T /\ dead = FALSE /\ beh = ""
        /\ \E g \in Gaps : nextSign = g /\ hist = <<g>>

\* one tick passes; a sign of life that arrives makes the pending read return, and the
\* loop sets a new deadline before it reads again
Tick ==
  /\ ~dead /\ beh = ""
  /\ now' = now + 1
  /\ IF now' = nextSign
     THEN /\ deadline' = now' + T /\ dead' = FALSE
          /\ IF Len(hist) < MaxSigns
             THEN \E g \in Gaps : nextSign' = now' + g /\ hist' = Append(hist, g) /\ beh' = ""
             ELSE UNCHANGED <<nextSign, hist>> /\ beh' = ToJson([gaps |-> hist, t |-> T])
     ELSE /\ dead' = (now' >= deadline)
          /\ UNCHANGED <<deadline, nextSign, hist, beh>>

Next == Tick
Spec == Init /\ [][Next]_vars

\* a peer whose signs of life are less than T apart is never expired
LiveNeverExpired == (\A g \in Gaps : g < T) => ~dead
=============================================================================
