------------------------------- MODULE SizeProp -------------------------------
(***************************************************************************)
(* Level A (property) specification for C18: outbound packets never exceed *)
(* the configured maximum size.                                            *)
(*   StartCfg(obj, maxps, wq, accepted)  Client.Start / Server.Start with  *)
(*        MaxPacketSize = maxps and WriteQueueSize = wq (0 = default)      *)
(*   Write(entry, kind, secure, max, plain, failed, nwire, maxwire)        *)
(*        one WritePacketRTP / WritePacketRTCP call through an entry point *)
(*        ("client", "session", "stream") with a packet whose plain size   *)
(*        is `plain`; failed = it returned an error; nwire / maxwire =     *)
(*        number and largest payload size of the UDP datagrams /           *)
(*        interleaved frames this write put on the wire                    *)
(***************************************************************************)
EXTENDS Naturals

VARIABLES nstart, nwrite
zvars == <<nstart, nwrite>>
ZInit == nstart = 0 /\ nwrite = 0
ZReset == nstart' = 0 /\ nwrite' = 0

UDPMax == 1472
RECURSIVE Pow2(_)
Pow2(n) == n = 1 \/ (n > 1 /\ n % 2 = 0 /\ Pow2(n \div 2))

StartCfg(obj, maxps, wq, accepted) ==
  /\ accepted = ((maxps <= UDPMax) /\ (wq = 0 \/ Pow2(wq)))
  /\ nstart' = nstart + 1 /\ UNCHANGED nwrite

Write(entry, kind, secure, max, plain, failed, nwire, maxwire) ==
  /\ nwire > 0 => maxwire <= max            \* nothing on the wire is larger than the maximum
  /\ failed => nwire = 0                    \* an error means nothing was transmitted
  /\ (plain <= max - (IF secure THEN 18 ELSE 0) /\ plain >= 12) => ~failed
                                            \* a packet that fits with any overhead is sent
  /\ (plain > max) => failed                \* one that cannot fit is refused
  /\ nwrite' = nwrite + 1 /\ UNCHANGED nstart
=============================================================================
