---------------------------- MODULE SharedSession ----------------------------
(***************************************************************************)
(* Level B (implementation-shaped) model of ONE server session used by     *)
(* several control connections:                                            *)
(*   ServerConn.handleRequestInSession  (sc.session is set to the session  *)
(*       after every request that reached it, whatever the outcome),       *)
(*   ServerSession.runInner             (ss.conns gets the connection      *)
(*       before the request is handled; chRemoveConn: the session ends     *)
(*       when ss.conns is empty unless it is streaming over UDP),          *)
(*   ServerSession.handleRequestInner   (a session that plays over TCP is  *)
(*       bound to the connection that asked for PLAY: ss.tcpConn),         *)
(*   ServerSession.run                  (a session that ends closes every  *)
(*       connection still in ss.conns),                                    *)
(*   ServerConn.run                     (a connection that ends leaves its *)
(*       session: removeConn; any request error ends the connection).      *)
(* A step is a request on one of the connections (always carrying the      *)
(* session's id once it exists) or the peer closing one of them.  Each     *)
(* step queues the notifications the code produces (in the orders the code *)
(* leaves open) and the Level A specification SharedSessionProp consumes   *)
(* them one by one: B => A is the invariant that the head of the queue is  *)
(* always an enabled Level A step.  Finished behaviours are exported and   *)
(* replayed on a real server (driver c02m).                                *)
(***************************************************************************)
EXTENDS SharedSessionProp, TLC, Json

CONSTANTS Conns, MaxSteps, Protos, LaterTracks, MethodSetM,
          LinkOnFail   \* TRUE: the code (a connection is paired with the session after every request
                       \* that reached it).  FALSE: a design in which a visitor whose first request
                       \* fails is not paired - it stays in ss.conns for ever; kept as a pinned
                       \* configuration that Level A must REFUSE (the session outlives its last
                       \* connection), so that the P2 clause is known not to be vacuous.

VARIABLES st,        \* "none" | "prePlay" | "play" | "preRecord" | "record" | "ended"
          idKnown,   \* the peers have seen the session's id (ANNOUNCE and error answers do not carry it)
          proto,     \* "none" | "udp" | "tcp"
          setupped,  \* tracks set up
          tcpConn,   \* ss.tcpConn (0: nil)
          members,   \* ss.conns
          linked,    \* connections whose sc.session is the session
          open,      \* connections not yet ended
          n, hist, beh,
          todo       \* notifications produced by the last step, not yet seen by Level A

bvars == <<st, idKnown, proto, setupped, tcpConn, members, linked, open, n, hist, beh, todo>>

AllMethodsM == {"SETUP", "PLAY", "PAUSE", "OPTIONS", "TEARDOWN", "RECORD", "ANNOUNCE"}
PlayMethodsM == {"SETUP", "PLAY", "PAUSE", "OPTIONS", "TEARDOWN", "RECORD"}
RecTracks == {0}        \* the announced description has one media
ProtosUT == {"udp", "tcp"}

Ev(e, c) == [e |-> e, c |-> c]
ReqEv(c, m, status, st1, u) == [e |-> "mreq", c |-> c, m |-> m, status |-> status, st1 |-> st1, udp |-> u]

\* Level A step for one queued notification
ADo(ev) ==
  CASE ev.e = "mreq_begin" -> MReqBegin(ev.c, ev.m, ev.st0, ev.sid)
    [] ev.e = "mreq"       -> MReqEnd(ev.c, ev.m, 1, TRUE, ev.status, ev.st1, ev.udp)
    [] ev.e = "sess_open"  -> MSessOpen
    [] ev.e = "sess_close" -> MSessClose
    [] ev.e = "peer_close" -> MPeerClose(ev.c)
    [] ev.e = "conn_close" -> MConnClose(ev.c)
    [] ev.e = "settle"     -> MSettle
    [] OTHER -> FALSE

Init ==
  /\ MInit
  /\ st = "none" /\ idKnown = FALSE /\ proto = "none" /\ setupped = {} /\ tcpConn = 0 /\ members = {} /\ linked = {}
  /\ open = Conns /\ n = 0 /\ hist = <<>> /\ beh = "" /\ todo = <<>>

\* the session loses a connection: it ends when none is left, unless it streams over UDP
EndsWhenEmpty(mem) == mem = {} /\ st \notin {"none", "ended"} /\ (st \notin {"play", "record"} \/ proto = "tcp")

SeqOf(S) == CHOOSE s \in [1..Cardinality(S) -> S] : \A i, j \in 1..Cardinality(S) : i # j => s[i] # s[j]
CloseEvs(S) == [i \in 1..Cardinality(S) |-> Ev("conn_close", SeqOf(S)[i])]

Finish(h, stNext, openNext, nNext) ==
  IF stNext = "ended" \/ nNext = MaxSteps \/ openNext = {}
  THEN ToJson([conns |-> Cardinality(Conns), steps |-> h]) ELSE ""

Request(c, m, trk, pr, ord) ==
  LET s0 == st
      other == tcpConn # 0 /\ c # tcpConn                 \* ErrServerSessionLinkedToOtherConn
      ok == /\ ~other
            /\ CASE m = "SETUP"    -> s0 \in {"none", "prePlay", "preRecord"} /\ trk \notin setupped
                 [] m = "ANNOUNCE" -> s0 = "none"
                 [] m = "PLAY"     -> s0 \in {"prePlay", "play"}
                 [] m = "RECORD"   -> s0 = "preRecord" /\ setupped = RecTracks
                 [] OTHER -> TRUE
      st1 == IF ~ok THEN s0
             ELSE CASE m = "SETUP" -> (IF s0 = "preRecord" THEN "preRecord" ELSE "prePlay")
                    [] m = "ANNOUNCE" -> "preRecord"
                    [] m = "PLAY" -> "play"
                    [] m = "RECORD" -> "record"
                    [] m = "PAUSE" -> (IF s0 = "play" THEN "prePlay" ELSE IF s0 = "record" THEN "preRecord" ELSE s0)
                    [] OTHER -> s0
      mode == IF s0 \in {"preRecord", "record"} THEN "record" ELSE "play"
      status == IF ok THEN 200 ELSE 400
      mem1 == members \cup {c}
      tear == ok /\ m = "TEARDOWN"
      pairs == ok \/ LinkOnFail \/ c = 1 \/ c \in linked
      mem2 == IF ok \/ ~pairs THEN mem1 ELSE mem1 \ {c}
      ends == tear \/ (~ok /\ EndsWhenEmpty(mem2))
      kicked == IF tear THEN (mem1 \ {c}) \cap open ELSE {}   \* closed by the ending session
      begin == <<[e |-> "mreq_begin", c |-> c, m |-> m, st0 |-> s0, sid |-> idKnown]>>
      opening == IF s0 = "none" THEN <<Ev("sess_open", 0)>> ELSE <<>>
      answer == <<ReqEv(c, m, status, st1, pr = "udp")>>
      closing == (IF ok THEN <<>> ELSE <<Ev("conn_close", c)>>) \o CloseEvs(kicked)
                 \o (IF ends THEN <<Ev("sess_close", 0)>> ELSE <<>>)
      settle == IF closing = <<>> THEN <<>> ELSE <<Ev("settle", 0)>>
      rec == [k |-> "req", c |-> c, m |-> m, track |-> trk, proto |-> pr, mode |-> mode, ok |-> ok,
              st1 |-> st1, ends |-> ends]
      stN == IF ends THEN "ended" ELSE st1
      openN == IF ok THEN open \ kicked ELSE open \ {c}
  IN
  /\ todo = <<>> /\ st # "ended" /\ c \in open /\ n < MaxSteps
  /\ (st = "none") => (c = 1 /\ m \in {"SETUP", "ANNOUNCE"} /\ trk = 0)
  /\ (st # "none") => /\ (proto # "none" => pr = proto)
                      /\ (c \notin linked => idKnown)         \* a visitor needs the id
                      /\ (m \notin {"SETUP", "ANNOUNCE"} => idKnown)   \* ... and so do these methods
                      /\ (m = "SETUP" /\ mode = "play" => trk \in LaterTracks)
                      /\ (m = "SETUP" /\ mode = "record" => trk = 0)
  /\ (m # "SETUP") => (trk = 0 /\ pr = (IF proto = "none" THEN "tcp" ELSE proto))
  /\ st' = stN
  /\ proto' = IF ok /\ m = "SETUP" /\ proto = "none" THEN pr ELSE proto
  /\ idKnown' = (idKnown \/ (ok /\ m \notin {"ANNOUNCE", "TEARDOWN"}))
  /\ setupped' = IF ok /\ m = "SETUP" THEN setupped \cup {trk} ELSE setupped
  /\ tcpConn' = IF ok /\ m \in {"PLAY", "RECORD"} /\ proto = "tcp" THEN c
                ELSE IF ok /\ m = "PAUSE" THEN 0 ELSE tcpConn
  /\ members' = IF ends THEN {} ELSE mem2
  /\ linked' = IF tear THEN linked \ {c} ELSE IF pairs THEN linked \cup {c} ELSE linked
  /\ open' = openN
  /\ n' = n + 1
  /\ hist' = Append(hist, rec)
  /\ beh' = Finish(hist', stN, openN, n')
  \* the orders the code leaves open: the answer is read before / after the notifications
  /\ todo' = IF ord = 1 THEN begin \o opening \o answer \o closing \o settle
             ELSE begin \o opening \o closing \o answer \o settle
  /\ UNCHANGED mvars

PeerClose(c, ord) ==
  LET mem2 == IF c \in linked THEN members \ {c} ELSE members
      ends == c \in linked /\ EndsWhenEmpty(mem2)
      rec == [k |-> "close", c |-> c, m |-> "-", track |-> 0, proto |-> proto, mode |-> "-", ok |-> TRUE,
              st1 |-> st, ends |-> ends]
      stN == IF ends THEN "ended" ELSE st
  IN
  /\ todo = <<>> /\ st \notin {"none", "ended"} /\ c \in open /\ n < MaxSteps
  /\ open' = open \ {c}
  /\ members' = IF ends THEN {} ELSE mem2
  /\ st' = stN
  /\ n' = n + 1
  /\ hist' = Append(hist, rec)
  /\ beh' = Finish(hist', stN, open \ {c}, n')
  /\ todo' = <<Ev("peer_close", c)>> \o
             (IF ends /\ ord = 2 THEN <<Ev("sess_close", 0), Ev("conn_close", c)>>
              ELSE <<Ev("conn_close", c)>> \o (IF ends THEN <<Ev("sess_close", 0)>> ELSE <<>>))
             \o <<Ev("settle", 0)>>
  /\ UNCHANGED <<idKnown, proto, setupped, tcpConn, linked, mvars>>

Drain ==
  /\ todo # <<>>
  /\ ADo(Head(todo))
  /\ todo' = Tail(todo)
  /\ UNCHANGED <<st, idKnown, proto, setupped, tcpConn, members, linked, open, n, hist, beh>>

Next ==
  \/ \E c \in Conns, m \in MethodSetM, trk \in {0} \cup LaterTracks, pr \in Protos, ord \in {1, 2} :
        Request(c, m, trk, pr, ord)
  \/ \E c \in Conns, ord \in {1, 2} : PeerClose(c, ord)
  \/ Drain

Spec == Init /\ [][Next]_<<mvars, bvars>>

\* B => A: whatever the implementation-shaped model produces is accepted by the property
BImpliesA == todo # <<>> => ENABLED ADo(Head(todo))

\* the two levels agree
Agreement == todo = <<>> =>
  /\ (st \notin {"none", "ended"}) => (mstate = st /\ Alive)
  /\ (st = "ended") => ~Alive
  /\ members \subseteq touch
  /\ MInv

\* the model's own bookkeeping (sc.session and ss.conns agree for connections that are open)
Linked == (st \notin {"none", "ended"} /\ todo = <<>>) => members = linked \cap open
=============================================================================
