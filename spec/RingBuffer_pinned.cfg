SPECIFICATION Spec
CONSTANTS
  N = 2
  Producers = {1, 2}
  PerProducer = 2
  FailItem = 21
  ClosedFirst = FALSE
  Nil = Nil
INVARIANT AInv
PROPERTY Refines
PROPERTY NoLostWakeup
PROPERTY CloseReturns
