-------------------------------- MODULE Stream --------------------------------
(***************************************************************************)
(* Level B model for C01: ServerStream fan-out and the per-session         *)
(* asynchronous writer, one action per critical section:                   *)
(*   writer   WritePacketRTP: RLock(stream); for each ACTIVE reader: no    *)
(*            writer -> drop silently; queue full -> report a write error; *)
(*            else push; RUnlock                                           *)
(*   PLAY     createWriter; (handler); readerSetActive [Lock(stream)];     *)
(*            response sent (the client's Play() returns); startWriter     *)
(*            (asynchronously, after the response)                         *)
(*   PAUSE    (client calls Pause()); destroyWriter: queue closed, pending *)
(*            discarded; readerSetInactive [Lock(stream)]; response        *)
(*   drain    the session's writer goroutine pops the queue and the packet *)
(*            reaches the reader's callback (reliable transport)           *)
(* The module extends the property spec DeliveryProp and takes its actions *)
(* at the corresponding points; TLC explores all interleavings of the      *)
(* writer, two readers' PLAY / PAUSE processing and the drains, and checks *)
(* that every delivery is accepted by DeliveryProp (order, at most once),  *)
(* and that whenever the system is quiescent nothing written while a       *)
(* reader was streaming is missing unless a write error was reported for   *)
(* it (B => A for Barrier).                                                *)
(***************************************************************************)
EXTENDS DeliveryProp, Sequences, TLC

CONSTANTS Readers, MaxPk, Cap

VARIABLES wpc, todo, cur,          \* stream writer: pc, readers still to serve, id being written
          rlocks, wlocked,         \* stream mutex: readers holding RLock, a writer holds Lock
          active,                  \* activeUnicastReaders
          spc,                     \* per reader: server-side program counter
          wr,                      \* per reader: writer "none" | "created" | "started"
          q                        \* per reader: queue
bvars == <<wpc, todo, cur, rlocks, wlocked, active, spc, wr, q>>

Init ==
  /\ nr = Cardinality(Readers) /\ nm = 1 /\ reliable = [r \in R |-> r \in Readers]
  /\ begun = [k \in K |-> 0] /\ last = [r \in R |-> [k \in K |-> 0]]
  /\ streaming = [r \in R |-> FALSE] /\ must = [r \in R |-> {}] /\ lossy = [r \in R |-> FALSE] /\ refused = {}
  /\ wpc = "idle" /\ todo = {} /\ cur = 0 /\ rlocks = 0 /\ wlocked = FALSE /\ active = {}
  /\ spc = [r \in Readers |-> "prePlay"] /\ wr = [r \in Readers |-> "none"] /\ q = [r \in Readers |-> <<>>]

\* ---- stream writer ---------------------------------------------------------------
WriteBegin ==
  /\ wpc = "idle" /\ begun[1] < MaxPk /\ ~wlocked
  /\ WBeg(1, begun[1] + 1)
  /\ wpc' = "fan" /\ todo' = active /\ cur' = begun[1] + 1 /\ rlocks' = rlocks + 1
  /\ UNCHANGED <<wlocked, active, spc, wr, q>>

FanOut(r) ==
  /\ wpc = "fan" /\ r \in todo
  /\ todo' = todo \ {r}
  /\ IF wr[r] = "none" THEN UNCHANGED <<q, dvars>>                    \* dropped silently
     ELSE IF Len(q[r]) >= Cap THEN WErr(r) /\ UNCHANGED q            \* queue full: reported
     ELSE q' = [q EXCEPT ![r] = Append(@, cur)] /\ UNCHANGED dvars
  /\ UNCHANGED <<wpc, cur, rlocks, wlocked, active, spc, wr>>

WriteEnd ==
  /\ wpc = "fan" /\ todo = {}
  /\ WEnd(1, cur)
  /\ wpc' = "idle" /\ rlocks' = rlocks - 1
  /\ UNCHANGED <<todo, cur, wlocked, active, spc, wr, q>>

\* ---- PLAY ------------------------------------------------------------------------
PlayCreateWriter(r) ==
  /\ spc[r] = "prePlay"
  /\ spc' = [spc EXCEPT ![r] = "play1"] /\ wr' = [wr EXCEPT ![r] = "created"]
  /\ UNCHANGED <<dvars, wpc, todo, cur, rlocks, wlocked, active, q>>
PlaySetActive(r) ==
  /\ spc[r] = "play1" /\ rlocks = 0 /\ ~wlocked
  /\ active' = active \cup {r} /\ spc' = [spc EXCEPT ![r] = "play2"]
  /\ UNCHANGED <<dvars, wpc, todo, cur, rlocks, wlocked, wr, q>>
PlayRespond(r) ==
  /\ spc[r] = "play2"
  /\ PlayRet(r)                                       \* the client's Play() returns
  /\ spc' = [spc EXCEPT ![r] = "play3"]
  /\ UNCHANGED <<wpc, todo, cur, rlocks, wlocked, active, wr, q>>
PlayStartWriter(r) ==
  /\ spc[r] = "play3"
  /\ wr' = [wr EXCEPT ![r] = "started"] /\ spc' = [spc EXCEPT ![r] = "playing"]
  /\ UNCHANGED <<dvars, wpc, todo, cur, rlocks, wlocked, active, q>>

\* ---- PAUSE -----------------------------------------------------------------------
PauseCall(r) ==
  /\ spc[r] = "playing"
  /\ StopCall(r)                                      \* the client calls Pause()
  /\ spc' = [spc EXCEPT ![r] = "pause1"]
  /\ UNCHANGED <<wpc, todo, cur, rlocks, wlocked, active, wr, q>>
PauseDestroyWriter(r) ==
  /\ spc[r] = "pause1"
  /\ wr' = [wr EXCEPT ![r] = "none"] /\ q' = [q EXCEPT ![r] = <<>>]
  /\ spc' = [spc EXCEPT ![r] = "pause2"]
  /\ UNCHANGED <<dvars, wpc, todo, cur, rlocks, wlocked, active>>
PauseSetInactive(r) ==
  /\ spc[r] = "pause2" /\ rlocks = 0 /\ ~wlocked
  /\ active' = active \ {r} /\ spc' = [spc EXCEPT ![r] = "prePlay"]
  /\ UNCHANGED <<dvars, wpc, todo, cur, rlocks, wlocked, wr, q>>

\* ---- the session's writer goroutine ------------------------------------------------
Drain(r) ==
  /\ wr[r] = "started" /\ q[r] # <<>>
  /\ Dlv(r, 1, Head(q[r]), TRUE)
  /\ q' = [q EXCEPT ![r] = Tail(@)]
  /\ UNCHANGED <<wpc, todo, cur, rlocks, wlocked, active, spc, wr>>

Next ==
  \/ WriteBegin \/ WriteEnd
  \/ \E r \in Readers : FanOut(r) \/ PlayCreateWriter(r) \/ PlaySetActive(r) \/ PlayRespond(r)
                        \/ PlayStartWriter(r) \/ PauseCall(r) \/ PauseDestroyWriter(r)
                        \/ PauseSetInactive(r) \/ Drain(r)
Spec == Init /\ [][Next]_<<dvars, bvars>>

\* ---- B => A ----------------------------------------------------------------------
\* every drain is a delivery the property accepts: in write order, at most once
DrainOK == \A r \in Readers : (wr[r] = "started" /\ q[r] # <<>>) => Head(q[r]) > last[r][1]
\* quiescent: nothing written while the reader was streaming is missing unless reported
BarrierOK == \A r \in Readers :
               (wpc = "idle" /\ streaming[r] /\ wr[r] = "started" /\ q[r] = <<>>) => (must[r] = {} \/ lossy[r])
\* queues never exceed their capacity, an inactive reader's queue is never fed
QueueOK == \A r \in Readers : Len(q[r]) <= Cap
\* a streaming reader (between PlayRet and the Pause call) is active and has a writer
StreamingImpliesActive == \A r \in Readers : streaming[r] => (r \in active /\ wr[r] # "none")
=============================================================================
