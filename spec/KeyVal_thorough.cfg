SPECIFICATION Spec
CONSTANTS
  MaxLen = 6
  Ordered = TRUE
  Alphabet <- FullAlphabet
INVARIANT Confluent
CHECK_DEADLOCK FALSE
