SPECIFICATION Spec
CONSTANTS
  MaxCallMs = 4000
  MaxDeadMs = 500
CHECK_DEADLOCK FALSE
INVARIANT TraceConsumed
POSTCONDITION TraceComplete
