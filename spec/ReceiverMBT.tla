---------------------------- MODULE ReceiverMBT ----------------------------
(* Arrival histories of the Level B receiver model exported as model-based   *)
(* tests: {"S":..,"unrel":..,"seqs":[..]} replayed on the real Receiver.    *)
EXTENDS Receiver, Json

VARIABLES hist,
          beh    \* the finished behaviour as JSON ("" before): read from TLC's state dump

InitH == Init /\ hist = <<>> /\ beh = ""
NextH == \E seq \in Candidates :
           /\ Arrive(seq)
           /\ hist' = Append(hist, seq)
           /\ beh' = IF n' = MaxLen THEN ToJson([S |-> S, unrel |-> unrel, seqs |-> hist']) ELSE ""
SpecH == InitH /\ [][NextH]_<<allvars, hist, beh>>
=============================================================================
