SPECIFICATION Spec
CONSTANTS
  Conns = {1, 2}
  MaxSteps = 4
  Protos <- ProtosUT
  LaterTracks = {1}
  MethodSetM <- AllMethodsM
  LinkOnFail = FALSE
INVARIANT BImpliesA
CHECK_DEADLOCK FALSE
