SPECIFICATION Spec
CONSTANTS
  MaxWrite = 7
  MaxWrites = 3
  MaxChunk = 13
INVARIANT NoError
INVARIANT PrefixOK
INVARIANT Complete
CHECK_DEADLOCK FALSE
