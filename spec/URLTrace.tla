------------------------------ MODULE URLTrace ------------------------------
EXTENDS TraceIO, URLProp
ResetAct == UReset
StepAct ==
  \/ Is("step") /\ Step(Ev.op, Ev.pathOk, Ev.queryOk, Ev.mediaOk)
  \/ Is("line") /\ Line(Ev.creds)
  \/ Is("fail") /\ Fail(Ev.op)
  \/ Is("done") /\ Done(Ev.nm)
  \/ Is("end")  /\ UNCHANGED uvars
Next == TraceNext(ResetAct, StepAct, UNCHANGED uvars)
Init == TraceInit /\ UInit
Spec == Init /\ [][Next]_<<tvars, uvars>>
=============================================================================
