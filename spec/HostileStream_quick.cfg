SPECIFICATION Spec
CONSTANTS
  Cap = 3
  MaxLen = 3
  Classes <- AllClasses
INVARIANT Bounded
CHECK_DEADLOCK FALSE
