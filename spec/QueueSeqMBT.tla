---------------------------- MODULE QueueSeqMBT ----------------------------
(***************************************************************************)
(* Sequential behaviours of the ring buffer (Level B, single thread) as    *)
(* model-based tests: every operation sequence of length Depth over        *)
(* {push, pull, close, reset} in which Pull does not block, for every      *)
(* capacity in Caps.  Each is exported as JSON and replayed on a real      *)
(* RingBuffer; the recorded trace is validated against QueueProp.          *)
(***************************************************************************)
EXTENDS Naturals, Sequences, TLC, Json

CONSTANTS Caps, Depth, Nil

VARIABLES n, slot, rd, wr, closedB, nextId, hist,
          beh    \* the finished behaviour as JSON ("" before): read from TLC's state dump
vars == <<n, slot, rd, wr, closedB, nextId, hist, beh>>

Init ==
  /\ n \in Caps
  /\ slot = [i \in 0..n-1 |-> Nil] /\ rd = 0 /\ wr = 0 /\ closedB = FALSE
  /\ nextId = 1 /\ hist = <<>> /\ beh = ""

Push ==
  /\ IF slot[wr] # Nil THEN UNCHANGED <<slot, wr>>
     ELSE slot' = [slot EXCEPT ![wr] = nextId] /\ wr' = (wr + 1) % n
  /\ nextId' = nextId + 1
  /\ hist' = Append(hist, "push")
  /\ UNCHANGED <<n, rd, closedB>>

\* only generated when it returns without blocking
Pull ==
  /\ closedB \/ slot[rd] # Nil
  /\ IF closedB THEN UNCHANGED <<slot, rd>>
     ELSE slot' = [slot EXCEPT ![rd] = Nil] /\ rd' = (rd + 1) % n
  /\ hist' = Append(hist, "pull")
  /\ UNCHANGED <<n, wr, closedB, nextId>>

Close ==
  /\ closedB' = TRUE /\ slot' = [i \in 0..n-1 |-> Nil]
  /\ hist' = Append(hist, "close")
  /\ UNCHANGED <<n, rd, wr, nextId>>

Reset ==
  /\ slot' = [i \in 0..n-1 |-> Nil] /\ rd' = 0 /\ wr' = 0 /\ closedB' = FALSE
  /\ hist' = Append(hist, "reset")
  /\ UNCHANGED <<n, nextId>>

Next ==
  /\ Len(hist) < Depth
  /\ (Push \/ Pull \/ Close \/ Reset)
  /\ beh' = IF Len(hist') = Depth THEN ToJson([cap |-> n, ops |-> hist']) ELSE ""
Spec == Init /\ [][Next]_vars

=============================================================================
