SPECIFICATION Spec
CONSTANTS
  MaxLen = 5
  Keys <- AllKeys
INVARIANT AttrPlacement
INVARIANT StateOK
CHECK_DEADLOCK FALSE
