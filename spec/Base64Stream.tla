---------------------------- MODULE Base64Stream ----------------------------
(***************************************************************************)
(* Level B model of the HTTP-tunnel byte carrier: the writer encodes each  *)
(* write as ONE padded base64 block; internal/base64streamreader decodes a *)
(* stream of such blocks that arrives cut into arbitrary reads.            *)
(*                                                                         *)
(* Characters are abstract: <<w, "c">> a data character of write w,        *)
(* <<w, "=">> a padding character.  A block for n bytes has 4*ceil(n/3)    *)
(* characters with 0, 1 or 2 padding characters at its end.                *)
(* Reader (as in the Go code):                                             *)
(*   loop while nothing decoded is pending:                                *)
(*     todec := predec cut to a multiple of 4; if it contains '=' cut it   *)
(*              after the first '=' (after the second if two in a row)     *)
(*     empty -> read more from below (blocks until data), append to predec *)
(*     else  -> predec := rest; decode todec (error unless it is a valid   *)
(*              base64 string: length multiple of 4, padding only at end)  *)
(* TLC explores every sequence of write sizes (1..MaxWrite bytes, up to    *)
(* MaxWrites writes) and EVERY way of cutting the character stream into    *)
(* reads, and checks that the bytes come out exactly as written: same      *)
(* count per write, in order, no decoding error.  The (writes, cuts)       *)
(* pairs are exported and replayed on the real reader.                     *)
(***************************************************************************)
EXTENDS Naturals, Sequences, TLC, Json

CONSTANTS MaxWrite, MaxWrites, MaxChunk

VARIABLES writes,    \* sizes of the writes
          wire,      \* characters not yet handed to the reader
          predec,    \* reader: characters read, not decoded
          out,       \* bytes delivered so far: sequence of write indexes
          cuts,      \* sizes of the reads from below (for export)
          phase, failed, beh
vars == <<writes, wire, predec, out, cuts, phase, failed, beh>>

Block(w, n) ==
  LET q == (n + 2) \div 3
      pad == (3 - (n % 3)) % 3
  IN [i \in 1..(4 * q) |-> IF i > 4 * q - pad THEN <<w, "=">> ELSE <<w, "c">>]

RECURSIVE Encode(_, _)
Encode(ws, k) == IF k > Len(ws) THEN <<>> ELSE Block(k, ws[k]) \o Encode(ws, k + 1)

\* index of the first padding character, 0 if none
RECURSIVE FirstPad(_, _)
FirstPad(s, i) == IF i > Len(s) THEN 0 ELSE IF s[i][2] = "=" THEN i ELSE FirstPad(s, i + 1)

ToDec(p) ==
  LET t == SubSeq(p, 1, (Len(p) \div 4) * 4)
      i == FirstPad(t, 1)
  IN IF i = 0 THEN t
     ELSE IF Len(t) > i /\ t[i + 1][2] = "=" THEN SubSeq(t, 1, i + 1) ELSE SubSeq(t, 1, i)

\* valid base64: length multiple of 4 and padding only in the last one or two places
Valid(t) == /\ Len(t) % 4 = 0
            /\ \A i \in 1..Len(t) : t[i][2] = "=" => i >= Len(t) - 1
            /\ (Len(t) >= 2 /\ t[Len(t) - 1][2] = "=") => t[Len(t)][2] = "="

\* bytes decoded from t (labelled with the write they belong to): 3 per quantum minus padding
RECURSIVE Decode(_)
Decode(t) ==
  IF t = <<>> THEN <<>>
  ELSE LET q == SubSeq(t, 1, 4)
           n == IF q[3][2] = "=" THEN 1 ELSE IF q[4][2] = "=" THEN 2 ELSE 3
       IN [i \in 1..n |-> q[1][1]] \o Decode(SubSeq(t, 5, Len(t)))

Init ==
  /\ writes = <<>> /\ wire = <<>> /\ predec = <<>> /\ out = <<>> /\ cuts = <<>>
  /\ phase = "write" /\ failed = FALSE /\ beh = ""

AddWrite ==
  /\ phase = "write" /\ Len(writes) < MaxWrites
  /\ \E n \in 1..MaxWrite : writes' = Append(writes, n)
  /\ UNCHANGED <<wire, predec, out, cuts, phase, failed, beh>>

StartRead ==
  /\ phase = "write" /\ writes # <<>>
  /\ wire' = Encode(writes, 1) /\ phase' = "read"
  /\ UNCHANGED <<writes, predec, out, cuts, failed, beh>>

\* one iteration of the reader's loop
ReaderStep ==
  /\ phase = "read" /\ ~failed
  /\ LET t == ToDec(predec) IN
     IF t = <<>>
     THEN \* read from below: any chunk size
          /\ wire # <<>>
          /\ \E k \in 1..MaxChunk :
               /\ k <= Len(wire)
               /\ predec' = predec \o SubSeq(wire, 1, k)
               /\ wire' = SubSeq(wire, k + 1, Len(wire))
               /\ cuts' = Append(cuts, k)
          /\ UNCHANGED <<out, failed>>
     ELSE /\ predec' = SubSeq(predec, Len(t) + 1, Len(predec))
          /\ IF Valid(t) THEN out' = out \o Decode(t) /\ failed' = FALSE
                         ELSE failed' = TRUE /\ UNCHANGED out
          /\ UNCHANGED <<wire, cuts>>
  /\ UNCHANGED <<writes, phase>>
  /\ beh' = IF wire' = <<>> /\ ToDec(predec') = <<>>
            THEN ToJson([writes |-> writes, cuts |-> cuts']) ELSE ""

Next == AddWrite \/ StartRead \/ ReaderStep
Spec == Init /\ [][Next]_vars

\* ---- checked on the model ---------------------------------------------------
RECURSIVE Expected(_, _)
Expected(ws, k) == IF k > Len(ws) THEN <<>> ELSE [i \in 1..ws[k] |-> k] \o Expected(ws, k + 1)

NoError == ~failed
\* what has been delivered is always a prefix of what was written
PrefixOK == phase = "read" => (Len(out) <= Len(Expected(writes, 1)) /\ out = SubSeq(Expected(writes, 1), 1, Len(out)))
\* when everything has arrived everything has been delivered
Complete == (phase = "read" /\ wire = <<>> /\ ToDec(predec) = <<>>) => (predec = <<>> /\ out = Expected(writes, 1))
=============================================================================
