--------------------------- MODULE LifecycleTrace ---------------------------
EXTENDS TraceIO, LifecycleProp
ResetAct == LReset
StepAct ==
  \/ Is("conn_open")  /\ ConnOpen(Ev.c)
  \/ Is("conn_close") /\ ConnClose(Ev.c)
  \/ Is("sess_open")  /\ SessOpen(Ev.s)
  \/ Is("sess_close") /\ SessClose(Ev.s)
  \/ Is("cb")         /\ Cb(Ev.s)
  \/ Is("close_call") /\ CloseCall(Ev.o)
  \/ Is("close_ret")  /\ CloseRet(Ev.o, Ev.ms)
  \/ Is("census")     /\ Census(Ev.goroutines, Ev.ports)
  \/ Is("end")        /\ End
Next == TraceNext(ResetAct, StepAct, UNCHANGED lvars)
Init == TraceInit /\ LInit
Spec == Init /\ [][Next]_<<tvars, lvars>>
=============================================================================
