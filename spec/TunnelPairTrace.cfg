SPECIFICATION SpecT
CONSTANTS
  ConnIds = {1, 2, 3, 4}
  Cookies = {"a", "b"}
  MaxLen = 4
CHECK_DEADLOCK FALSE
INVARIANT TraceConsumed
POSTCONDITION TraceComplete
