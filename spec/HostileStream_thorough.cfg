SPECIFICATION Spec
CONSTANTS
  Cap = 3
  MaxLen = 4
  Classes <- AllClasses
INVARIANT Bounded
CHECK_DEADLOCK FALSE
