------------------------- MODULE SharedSessionTrace -------------------------
(* Trace validation of real conversations in which several control connections *)
(* use one session (driver c02m), against SharedSessionProp.                   *)
EXTENDS TraceIO, SharedSessionProp

ResetAct == MReset

StepAct ==
  /\ \/ Is("mreq_begin") /\ MReqBegin(Ev.c, Ev.m, Ev.st0, Ev.sid)
     \/ Is("mreq")       /\ \/ MReqEnd(Ev.c, Ev.m, Ev.nresp, Ev.cseqOk, Ev.status, Ev.st1, Ev.udp)
                             \/ MReqEndForeign(Ev.c, Ev.nresp, Ev.cseqOk, Ev.status)
     \/ Is("conn_open")  /\ UNCHANGED mvars
     \/ Is("sess_open")  /\ MSessOpen
     \/ Is("sess_close") /\ MSessClose
     \/ Is("peer_close") /\ MPeerClose(Ev.c)
     \/ Is("conn_close") /\ MConnClose(Ev.c)
     \/ Is("settle")     /\ MSettle
     \/ Is("cleanup")    /\ MCleanup
     \/ Is("end")        /\ MEnd
  /\ MInv'

Next == TraceNext(ResetAct, StepAct, UNCHANGED mvars)
Init == TraceInit /\ MInit
Spec == Init /\ [][Next]_<<tvars, mvars>>
=============================================================================
