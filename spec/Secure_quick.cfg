SPECIFICATION Spec
CONSTANTS
  M = 16
  MaxPackets = 12
  MaxGap = 2
INVARIANT NoFalseReject
CHECK_DEADLOCK FALSE
