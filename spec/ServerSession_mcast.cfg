SPECIFICATION Spec
CONSTANTS
  MaxReq = 3
  McastEnabled = TRUE
  Protos <- ProtosTM
  UDPEnabled = TRUE
  HasRecord = TRUE
  HasPlay = TRUE
  HasPause = TRUE
  Tracks = {0, 1}
  MethodSet <- Methods
  ShSet <- NoUnknown
INVARIANT BImpliesA
INVARIANT Agreement
CHECK_DEADLOCK FALSE
