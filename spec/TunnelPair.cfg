SPECIFICATION Spec
CONSTANTS
  ConnIds = {1, 2, 3, 4}
  Cookies = {"a", "b"}
  MaxLen = 4
INVARIANT AtMostOnce
CHECK_DEADLOCK FALSE
