SPECIFICATION Spec
CONSTANT Nil = Nil
CHECK_DEADLOCK FALSE
INVARIANT TraceConsumed
POSTCONDITION TraceComplete
