---------------------------- MODULE SessionProp ----------------------------
(***************************************************************************)
(* Level A (property) specification for C02: the server-side RTSP session  *)
(* as seen from one control connection, RFC 2326 appendix A state machine. *)
(*                                                                         *)
(* Observations (one conversation = one trace):                            *)
(*   ReqBegin(m, sh, st0) / ReqEnd(m, sh, nresp, cseqOk, status, st1, exp) *)
(*       a request with method m and Session header variant sh ("none",    *)
(*       "right", "unknown") is sent / its answer has been read: nresp     *)
(*       responses arrived, the first echoing the CSeq iff cseqOk, with    *)
(*       that status; st0 / st1 are ServerSession.State() of the           *)
(*       conversation's session before / after ("none": no session         *)
(*       exists); exp = "ok" when the implementation-shaped model says the *)
(*       request is a valid main-path request that must succeed.           *)
(*   SessOpen, SessClose(why), ConnClose, Cleanup, Hang, End               *)
(*                                                                         *)
(* The open cases of the RFC text are left open: PAUSE while paused, PLAY  *)
(* while playing, GET/SET_PARAMETER, OPTIONS and DESCRIBE anywhere may be  *)
(* answered either way but never change the state; which 4xx/5xx code is   *)
(* used is not constrained.                                                *)
(***************************************************************************)
EXTENDS Naturals, Sequences, FiniteSets, RFC2326

VARIABLES state,      \* "none" | "initial" | "prePlay" | "play" | "preRecord" | "record"
          udp,        \* the session's media transport is UDP (unicast or multicast)
          opened, closedN,   \* OnSessionOpen / OnSessionClose notifications so far
          tornDown,   \* a TEARDOWN was answered 2xx and the close notification is pending
          connGone,   \* the control connection has ended
          cleanup,    \* the harness has started tearing the scenario down
          pend,       \* a request is in flight: [m, sh, st0] or NoReq
          endedIn,    \* the session ended while that request was in flight: "no" | "td" | "other"
          unjust      \* a session ended for no reason seen yet: "no" | "soft" (cured by the
                      \* connection's end, whose notification may come later) | "hard"

svars == <<state, udp, opened, closedN, tornDown, connGone, cleanup, pend, endedIn, unjust>>

NoReq == [m |-> "-", sh |-> "-", st0 |-> "-"]

SInit == state = "none" /\ udp = FALSE /\ opened = 0 /\ closedN = 0 /\ tornDown = FALSE
         /\ connGone = FALSE /\ cleanup = FALSE /\ pend = NoReq /\ endedIn = "no" /\ unjust = "no"
SReset == state' = "none" /\ udp' = FALSE /\ opened' = 0 /\ closedN' = 0 /\ tornDown' = FALSE
          /\ connGone' = FALSE /\ cleanup' = FALSE /\ pend' = NoReq /\ endedIn' = "no" /\ unjust' = "no"

\* the request addresses the session: right id, or no id where the id is optional
Routed(st, m, sh) == sh = "right" \/ (sh = "none" /\ m \in {"SETUP", "ANNOUNCE"})
                     \/ (sh = "unknown" /\ st = "none" /\ m \in {"SETUP", "ANNOUNCE"})

\* The request goes out. st0 is the API's view of the session state at that moment; it
\* must agree with the history (unless the connection has already ended, in which case
\* the request will not be answered and nothing is claimed).
ReqBegin(m, sh, st0) ==
  /\ pend = NoReq
  /\ connGone \/ st0 = state
  /\ pend' = [m |-> m, sh |-> sh, st0 |-> state]
  /\ endedIn' = "no"
  /\ UNCHANGED <<state, udp, opened, closedN, tornDown, connGone, cleanup, unjust>>

\* The response arrived (or did not: nresp = 0).  Session / connection notifications of the
\* server may have been delivered in between; the rules refer to the state at ReqBegin.
\* what an answer must look like, given the state s0 when the request went out and whether
\* the session ended meanwhile
Answer(s0, ended, m, sh, nresp, cseqOk, status, st1, exp, isUdp) ==
  /\ nresp = 1 /\ cseqOk                               \* exactly one response, same CSeq
  /\ (exp = "ok") => Ok(status)                         \* valid main-path requests succeed
  /\ IF s0 # "none" /\ Illegal(s0, m)
     THEN status >= 400 /\ st1 = s0                     \* illegal: error, state unchanged
     ELSE IF Ok(status) /\ Routed(s0, m, sh) /\ HasSucc(s0, m)
     THEN st1 = Succ(s0, m)                              \* legal and accepted: RFC successor
     ELSE IF s0 = "none"
     THEN st1 \in {"none", "initial"}                   \* a refused first request may leave a fresh session
     ELSE st1 = s0                                       \* refused / open cases / no-ops: unchanged
  \* a session that ended during a TEARDOWN did so because the TEARDOWN succeeded
  /\ (ended = "td") => Ok(status)
  /\ state' = IF ended # "no" THEN "none" ELSE st1
  /\ udp' = IF ended # "no" THEN FALSE
            ELSE IF st1 \in {"prePlay", "preRecord"} /\ m = "SETUP" /\ Ok(status) THEN isUdp ELSE udp
  /\ tornDown' = (ended = "no" /\ (tornDown \/ (m = "TEARDOWN" /\ Ok(status) /\ sh = "right" /\ s0 # "none")))
  /\ pend' = NoReq /\ endedIn' = "no"
  /\ UNCHANGED <<opened, closedN, connGone, cleanup, unjust>>

ReqEnd(m, sh, nresp, cseqOk, status, st1, exp, isUdp) ==
  /\ pend # NoReq /\ pend.m = m /\ pend.sh = sh
  /\ Answer(pend.st0, endedIn, m, sh, nresp, cseqOk, status, st1, exp, isUdp)

\* request and answer with nothing in between (used by the Level B model)
Req(m, sh, nresp, cseqOk, status, st1, exp, isUdp) ==
  /\ pend = NoReq /\ ~connGone
  /\ Answer(state, "no", m, sh, nresp, cseqOk, status, st1, exp, isUdp)

SessOpen ==
  /\ opened = closedN                                   \* one session at a time in these scenarios
  /\ opened' = opened + 1
  /\ UNCHANGED <<state, udp, closedN, tornDown, connGone, cleanup, pend, endedIn, unjust>>

Streaming == state \in {"play", "record"}

\* A session ends exactly once, and only for a reason the statement allows: TEARDOWN
\* (possibly still in flight); its last connection gone unless it is streaming over UDP
\* (then only the timeout, which these scenarios do not reach before Cleanup); shutdown by
\* the harness.  The connection's own close notification may be delivered after the
\* session's: such an end is provisionally unjustified ("soft") until ConnClose arrives.
SessClose ==
  /\ closedN < opened
  /\ closedN' = closedN + 1
  /\ unjust' = IF tornDown \/ cleanup \/ (pend # NoReq /\ pend.m = "TEARDOWN" /\ pend.sh = "right") THEN unjust
               ELSE IF Streaming /\ udp THEN "hard"
               ELSE IF connGone THEN unjust
               ELSE IF unjust = "hard" THEN "hard" ELSE "soft"
  /\ state' = "none" /\ udp' = FALSE /\ tornDown' = FALSE
  \* "td": ended while a TEARDOWN was in flight and for no other visible reason - that
  \* TEARDOWN must then turn out to have succeeded
  /\ endedIn' = IF pend = NoReq THEN "no"
                ELSE IF pend.m = "TEARDOWN" /\ pend.sh = "right" /\ ~connGone /\ ~tornDown /\ ~cleanup
                THEN "td" ELSE "other"
  /\ UNCHANGED <<opened, connGone, cleanup, pend>>

ConnClose ==
  /\ connGone' = TRUE
  /\ unjust' = IF unjust = "soft" THEN "no" ELSE unjust
  /\ UNCHANGED <<state, udp, opened, closedN, tornDown, cleanup, pend, endedIn>>

\* the harness waited (bounded) for the notifications that are due before it starts
\* tearing down: a session whose connection is gone must have ended unless UDP streaming
Cleanup ==
  /\ unjust = "no"                                      \* no session ended without a reason
  /\ (connGone /\ ~(Streaming /\ udp)) => closedN = opened
  /\ ~tornDown                                          \* a torn-down session has ended by now
  /\ pend = NoReq \/ connGone                           \* every request was answered
  /\ cleanup' = TRUE
  /\ UNCHANGED <<state, udp, opened, closedN, tornDown, connGone, pend, endedIn, unjust>>

End == cleanup /\ closedN = opened /\ UNCHANGED svars   \* every open has exactly one close

SInv == closedN <= opened /\ opened <= closedN + 1
=============================================================================
