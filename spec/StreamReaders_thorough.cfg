SPECIFICATION Spec
CONSTANTS
  Readers = {1, 2, 3}
  Protos = {"tcp", "udp", "mcast"}
  MaxLen = 7
INVARIANT AcctOK
CHECK_DEADLOCK FALSE
