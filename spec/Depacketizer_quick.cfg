SPECIFICATION Spec
CONSTANTS
  Shapes <- ShapesQuick
  MaxFaults = 2
INVARIANT BImpliesA
INVARIANT Settled
CHECK_DEADLOCK FALSE
