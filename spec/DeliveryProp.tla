----------------------------- MODULE DeliveryProp -----------------------------
(***************************************************************************)
(* Level A (property) specification for C01: end-to-end media delivery     *)
(* (publisher or ServerStream writer -> server -> reading clients).        *)
(*                                                                         *)
(* Packets of a (media, format) pair k carry consecutive ids 1, 2, ...     *)
(* assigned by the harness and recoverable from the payload.               *)
(*   WBeg(k, id) / WEnd(k, id)   a write call starts / has returned        *)
(*   Dlv(r, k, id, same)         reader r's callback got the packet the    *)
(*                               payload identifies as (k, id); same = its *)
(*                               payload, marker, timestamp, sequence      *)
(*                               number and payload type are what was      *)
(*                               written                                   *)
(*   PlayRet(r) / StopCall(r)    reader r's PLAY has completed / its PAUSE *)
(*                               or Close is about to be called            *)
(*   WRefused(k, id)             the write returned "packet too big"       *)
(*   WErr(r)                     a write-queue-full (or other write) error *)
(*                               was reported for reader r                 *)
(*   Barrier(r)                  the harness stopped writing and waited    *)
(*                               (bounded) for r to catch up               *)
(*   Ssrc(r, k, same)            SSRC announced in SETUP vs carried        *)
(* Reliable readers (TCP-based transports): every packet whose write       *)
(* STARTED while the reader was streaming must have arrived by the next    *)
(* barrier unless a write error was reported for that reader.  All         *)
(* readers: identity, order, at most once, right media.                    *)
(***************************************************************************)
EXTENDS Naturals, FiniteSets

VARIABLES nr, nm,        \* readers, (media, format) pairs
          reliable,      \* reader -> TCP-based transport
          begun,         \* k -> number of writes started
          last,          \* r -> k -> id of the last packet delivered
          streaming,     \* r -> between PlayRet and StopCall
          must,          \* r -> set of <<k, id>> still owed
          lossy,         \* r -> a write error was reported
          refused        \* <<k, id>> whose write returned "packet too big": nothing was transmitted
dvars == <<nr, nm, reliable, begun, last, streaming, must, lossy, refused>>

MaxR == 4
MaxM == 4
R == 1..MaxR
K == 1..MaxM

DInit == /\ nr = 0 /\ nm = 0 /\ reliable = [r \in R |-> FALSE] /\ begun = [k \in K |-> 0]
         /\ last = [r \in R |-> [k \in K |-> 0]] /\ streaming = [r \in R |-> FALSE]
         /\ must = [r \in R |-> {}] /\ lossy = [r \in R |-> FALSE] /\ refused = {}
DReset(n, m, rel) ==
         /\ nr' = n /\ nm' = m /\ reliable' = [r \in R |-> IF r <= n THEN rel[r] ELSE FALSE]
         /\ begun' = [k \in K |-> 0] /\ last' = [r \in R |-> [k \in K |-> 0]]
         /\ streaming' = [r \in R |-> FALSE] /\ must' = [r \in R |-> {}] /\ lossy' = [r \in R |-> FALSE]
         /\ refused' = {}

WBeg(k, id) ==
  /\ k \in 1..nm /\ id = begun[k] + 1
  /\ begun' = [begun EXCEPT ![k] = id]
  /\ must' = [r \in R |-> IF r <= nr /\ streaming[r] /\ reliable[r] THEN must[r] \cup {<<k, id>>} ELSE must[r]]
  /\ UNCHANGED <<nr, nm, reliable, last, streaming, lossy, refused>>

\* the write of (k, id) returned an error because the packet exceeds what the stream can carry
\* (C18: such a write transmits nothing): it is owed to nobody and must never be delivered
WRefused(k, id) ==
  /\ k \in 1..nm /\ id = begun[k]
  /\ \A r \in 1..nr : last[r][k] < id
  /\ refused' = refused \cup {<<k, id>>}
  /\ must' = [r \in R |-> must[r] \ {<<k, id>>}]
  /\ UNCHANGED <<nr, nm, reliable, begun, last, streaming, lossy>>

WEnd(k, id) == k \in 1..nm /\ id <= begun[k] /\ UNCHANGED dvars

Dlv(r, k, id, same) ==
  /\ r \in 1..nr /\ k \in 1..nm
  /\ id >= 1 /\ id <= begun[k]                \* it was written, to this media and format
  /\ same                                      \* identical payload, marker, timestamp, seq, payload type
  /\ id > last[r][k]                           \* in the order written, at most once
  /\ <<k, id>> \notin refused                  \* a refused write transmitted nothing
  /\ last' = [last EXCEPT ![r][k] = id]
  /\ must' = [must EXCEPT ![r] = @ \ {<<k, id>>}]
  /\ UNCHANGED <<nr, nm, reliable, begun, streaming, lossy, refused>>

PlayRet(r) == r \in 1..nr /\ streaming' = [streaming EXCEPT ![r] = TRUE]
              /\ UNCHANGED <<nr, nm, reliable, begun, last, must, lossy, refused>>

\* packets still owed when the reader stops are forgiven only if the harness checked a
\* barrier first (it always does for reliable readers in the scenarios that check completeness)
StopCall(r) == r \in 1..nr /\ streaming' = [streaming EXCEPT ![r] = FALSE]
               /\ must' = [must EXCEPT ![r] = {}]
               /\ UNCHANGED <<nr, nm, reliable, begun, last, lossy, refused>>

WErr(r) == r \in 1..nr /\ lossy' = [lossy EXCEPT ![r] = TRUE]
           /\ UNCHANGED <<nr, nm, reliable, begun, last, streaming, must, refused>>

\* nothing written after PLAY completed is missing unless a write error was reported
Barrier(r) == r \in 1..nr /\ (must[r] = {} \/ lossy[r]) /\ UNCHANGED dvars

Ssrc(r, k, same) == same /\ UNCHANGED dvars
=============================================================================
