----------------------------- MODULE Timestamps -----------------------------
(***************************************************************************)
(* Level B model of rtptime.GlobalDecoder: per track (overall, prev);      *)
(*   decode(ts): overall += int32(ts - prev); prev = ts                    *)
(* in a ring of W values, for every initial timestamp, every sequence of   *)
(* steps with |step| < W/2 (forward, backward, across the wrap, several    *)
(* wraps) on up to two tracks, the second starting late.  TLC checks that  *)
(* every value the model computes is the one TimestampsProp demands and    *)
(* that the accumulated PTS equals the true (unwrapped) position; the step *)
(* sequences are exported and replayed, scaled, on the real decoder.       *)
(***************************************************************************)
EXTENDS TimestampsProp, TLC, Json

CONSTANTS Inits, Steps, MaxLen, LateAfter

VARIABLES overall, prev, truePos, n, hist, beh,
          clk, tLead       \* seconds: now, and when the leading track's last packet arrived (one packet per second)
bvars == <<overall, prev, truePos, n, hist, beh, clk, tLead>>

Init ==
  /\ TInit
  /\ overall = [t \in Tracks |-> 0] /\ prev = [t \in Tracks |-> 0] /\ truePos = [t \in Tracks |-> 0]
  /\ n = 0 /\ hist = <<>> /\ beh = "" /\ clk = 0 /\ tLead = 0

Export(h) == IF Len(h) = MaxLen THEN ToJson([steps |-> h]) ELSE ""

Start(ts) ==
  /\ n = 0
  /\ First(1, ts, 0, clk + 1)
  /\ clk' = clk + 1 /\ tLead' = clk + 1
  /\ prev' = [prev EXCEPT ![1] = ts] /\ UNCHANGED <<overall, truePos>>
  /\ n' = 1 /\ hist' = <<[tr |-> 1, ts |-> ts, d |-> 0, late |-> FALSE]>> /\ beh' = Export(hist')

StepTrack(tr, d) ==
  /\ n >= 1 /\ n < MaxLen /\ known[tr]
  /\ LET ts == (prev[tr] + W + d) % W
         delta == LET x == (ts + W - prev[tr]) % W IN IF x >= W \div 2 THEN x - W ELSE x   \* int32(ts - prev)
         pts == overall[tr] + delta
     IN /\ Dec(tr, ts, pts, clk + 1)
        /\ clk' = clk + 1 /\ tLead' = IF tr = 1 THEN clk + 1 ELSE tLead
        /\ overall' = [overall EXCEPT ![tr] = pts] /\ prev' = [prev EXCEPT ![tr] = ts]
        /\ truePos' = [truePos EXCEPT ![tr] = @ + d]
        /\ hist' = Append(hist, [tr |-> tr, ts |-> ts, d |-> d, late |-> FALSE])
  /\ n' = n + 1 /\ beh' = Export(hist')

\* track 2 starts LateAfter seconds after the leading track's last packet, same rate
StartLate(ts) ==
  /\ n >= 1 /\ n < MaxLen /\ ~known[2]
  /\ LET pts == overall[1] + LateAfter * rate[2] IN
     /\ Late(2, ts, pts, tLead + LateAfter)
     /\ clk' = tLead + LateAfter /\ UNCHANGED tLead
     /\ overall' = [overall EXCEPT ![2] = pts] /\ prev' = [prev EXCEPT ![2] = ts]
     /\ truePos' = [truePos EXCEPT ![2] = pts]
     /\ hist' = Append(hist, [tr |-> 2, ts |-> ts, d |-> 0, late |-> TRUE])
  /\ n' = n + 1 /\ beh' = Export(hist')

Next ==
  \/ \E ts \in Inits : Start(ts)
  \/ \E tr \in {1, 2}, d \in Steps : StepTrack(tr, d)
  \/ \E ts \in Inits : StartLate(ts)
Spec == Init /\ [][Next]_<<tvarsA, bvars>>

StepsQuick == {0 - 7, 0 - 3, 0 - 1, 1, 2, 7}
StepsThorough == (0 - 7)..7 \ {0}

\* the 64-bit continuation equals the true position, whatever the wraps
Continuation == \A tr \in {1, 2} : known[tr] => overall[tr] = truePos[tr] /\ acc[tr] = overall[tr]

\* B => A: every step the model can take is accepted by Level A
BImpliesA ==
  n >= 1 /\ n < MaxLen =>
    \A tr \in {1, 2}, d \in Steps : known[tr] =>
      LET ts == (prev[tr] + W + d) % W
          x == (ts + W - prev[tr]) % W
          delta == IF x >= W \div 2 THEN x - W ELSE x
      IN ENABLED Dec(tr, ts, overall[tr] + delta, clk + 1)
=============================================================================
