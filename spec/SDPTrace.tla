------------------------------ MODULE SDPTrace ------------------------------
EXTENDS TraceIO, SDPProp
ResetAct == SResetSDP
StepAct ==
  \/ Is("sdprt")    /\ RoundTrip(Ev.eq, Ev.idem, Ev.panic)
  \/ Is("sdpparse") /\ Parse(Ev.accepted, Ev.stable, Ev.panic)
  \/ Is("end")      /\ UNCHANGED sdpvars
Next == TraceNext(ResetAct, StepAct, UNCHANGED sdpvars)
Init == TraceInit /\ SInitSDP
Spec == Init /\ [][Next]_<<tvars, sdpvars>>
=============================================================================
