SPECIFICATION Spec
CONSTANTS
  Conns = {1, 2}
  Sessions = {1, 2}
  MaxCloseMs = 6000
INVARIANT NoConnStuck
INVARIANT SessAfterConns
INVARIANT Balanced
PROPERTY CloseReturns
