SPECIFICATION Spec
CONSTANTS
  W = 16
  Inits = {0, 7, 8, 15}
  Steps <- StepsQuick
  MaxLen = 5
  LateAfter = 2
INVARIANT Continuation
INVARIANT BImpliesA
CHECK_DEADLOCK FALSE
