SPECIFICATION Spec
CONSTANTS
  MaxReq = 3
  UDPEnabled = TRUE
  HasRecord = TRUE
  HasPlay = FALSE
  HasPause = TRUE
  Tracks = {0, 1}
INVARIANT BImpliesA
INVARIANT Agreement
CHECK_DEADLOCK FALSE
