SPECIFICATION Spec
CONSTANTS
  MaxLen = 6
  Calls <- AllCalls
INVARIANT PathOK
CHECK_DEADLOCK FALSE
