------------------------------ MODULE Lifecycle ------------------------------
(***************************************************************************)
(* Level B model for C13: the shutdown paths of Server, ServerConn and     *)
(* ServerSession (contexts, channel hand-overs guarded by ctx.Done, wait   *)
(* group), one action per blocking point:                                  *)
(*  ServerConn.run : runInner returns (read error | ctx done) -> cancel    *)
(*     own ctx -> session.removeConn (hand-over to the session's select,   *)
(*     or skipped when the session's ctx is done) -> server.closeConn      *)
(*     (hand-over or skipped when the server's ctx is done) -> OnConnClose *)
(*     -> close(done)                                                      *)
(*  ServerSession.run : runInner returns (teardown | last conn removed |   *)
(*     timeout | ctx done) -> cancel own ctx -> for each linked conn:      *)
(*     conn.Close (cancel), wait conn.done -> server.closeSession ->       *)
(*     OnSessionClose                                                      *)
(*  Server.Close : cancel root ctx (every conn / session ctx derives from  *)
(*     it) -> wait for all goroutines                                      *)
(* The module extends LifecycleProp and takes its actions at the           *)
(* notification points.  TLC explores every interleaving with Close        *)
(* enabled in every state and checks: no deadlock, every notification is   *)
(* accepted by LifecycleProp (one close per open), a session's close       *)
(* notification comes after all its connections are done, Server.Close     *)
(* returns, and afterwards everything has been notified (B => A for        *)
(* CloseRet / Census).                                                     *)
(***************************************************************************)
EXTENDS LifecycleProp, TLC

CONSTANTS Conns, Sessions

VARIABLES srvCtx,      \* root context cancelled
          srvDone,     \* Server.Close has returned
          cpc, cctx, clink,    \* conn: pc, ctx cancelled, linked session (0: none)
          spc, sctx, sconns, swait   \* session: pc, ctx cancelled, linked conns, conn being waited for
bvars == <<srvCtx, srvDone, cpc, cctx, clink, spc, sctx, sconns, swait>>

Init ==
  /\ LInit
  /\ srvCtx = FALSE /\ srvDone = FALSE
  /\ cpc = [c \in Conns |-> "none"] /\ cctx = [c \in Conns |-> FALSE] /\ clink = [c \in Conns |-> 0]
  /\ spc = [s \in Sessions |-> "none"] /\ sctx = [s \in Sessions |-> FALSE]
  /\ sconns = [s \in Sessions |-> {}] /\ swait = [s \in Sessions |-> 0]

CDone(c) == cctx[c] \/ srvCtx
SDone(s) == sctx[s] \/ srvCtx

\* ---- normal operation ---------------------------------------------------------------
Accept(c) ==
  /\ ~srvCtx /\ cpc[c] = "none"
  /\ ConnOpen(c)
  /\ cpc' = [cpc EXCEPT ![c] = "run"]
  /\ UNCHANGED <<srvCtx, srvDone, cctx, clink, spc, sctx, sconns, swait>>

\* SETUP / ANNOUNCE on conn c creates session s (hand-over through the server and the session)
CreateSession(c, s) ==
  /\ ~srvCtx /\ cpc[c] = "run" /\ clink[c] = 0 /\ spc[s] = "none"
  /\ SessOpen(s)
  /\ spc' = [spc EXCEPT ![s] = "run"] /\ sconns' = [sconns EXCEPT ![s] = {c}]
  /\ clink' = [clink EXCEPT ![c] = s]
  /\ UNCHANGED <<srvCtx, srvDone, cpc, cctx, sctx, swait>>

\* a request on conn c reaches session s: a packet / request callback
Request(c) ==
  /\ cpc[c] = "run" /\ clink[c] # 0 /\ spc[clink[c]] = "run" /\ ~SDone(clink[c]) /\ ~CDone(c)
  /\ Cb(clink[c])
  /\ UNCHANGED bvars

\* ---- connection shutdown --------------------------------------------------------------
\* runInner returns: the peer went away, an error, or the ctx is done
ConnExit(c) ==
  /\ cpc[c] = "run"
  /\ cpc' = [cpc EXCEPT ![c] = IF clink[c] # 0 THEN "removing" ELSE "closing"]
  /\ cctx' = [cctx EXCEPT ![c] = TRUE]
  /\ UNCHANGED <<lvars, srvCtx, srvDone, clink, spc, sctx, sconns, swait>>

\* session.removeConn: handed to the session's select ...
ConnRemoveHandover(c) ==
  /\ cpc[c] = "removing" /\ spc[clink[c]] = "run"
  /\ LET s == clink[c] IN
     /\ sconns' = [sconns EXCEPT ![s] = @ \ {c}]
     \* the session ends when its last connection goes (TCP-bound session)
     /\ spc' = IF sconns[s] = {c} THEN [spc EXCEPT ![s] = "exit"] ELSE spc
  /\ cpc' = [cpc EXCEPT ![c] = "closing"]
  /\ UNCHANGED <<lvars, srvCtx, srvDone, cctx, clink, sctx, swait>>
\* ... or skipped because the session's context is done
ConnRemoveSkip(c) ==
  /\ cpc[c] = "removing" /\ SDone(clink[c])
  /\ cpc' = [cpc EXCEPT ![c] = "closing"]
  /\ UNCHANGED <<lvars, srvCtx, srvDone, cctx, clink, spc, sctx, sconns, swait>>

\* server.closeConn (hand-over or ctx done; both lead here), then OnConnClose, then close(done)
ConnNotify(c) ==
  /\ cpc[c] = "closing"
  /\ ConnClose(c)
  /\ cpc' = [cpc EXCEPT ![c] = "done"]
  /\ UNCHANGED <<srvCtx, srvDone, cctx, clink, spc, sctx, sconns, swait>>

\* ---- session shutdown ---------------------------------------------------------------
\* runInner returns on its own: TEARDOWN, timeout, writer error, or ctx done
SessExit(s) ==
  /\ spc[s] = "run"
  /\ spc' = [spc EXCEPT ![s] = "exit"]
  /\ UNCHANGED <<lvars, srvCtx, srvDone, cpc, cctx, clink, sctx, sconns, swait>>

SessCancel(s) ==
  /\ spc[s] = "exit"
  /\ sctx' = [sctx EXCEPT ![s] = TRUE] /\ spc' = [spc EXCEPT ![s] = "conns"]
  /\ UNCHANGED <<lvars, srvCtx, srvDone, cpc, cctx, clink, sconns, swait>>

\* for each linked conn: Close it (cancel) and wait for its done channel
SessCloseConn(s) ==
  /\ spc[s] = "conns" /\ swait[s] = 0 /\ sconns[s] # {}
  /\ \E c \in sconns[s] :
       /\ swait' = [swait EXCEPT ![s] = c]
       /\ cctx' = [cctx EXCEPT ![c] = TRUE]
  /\ UNCHANGED <<lvars, srvCtx, srvDone, cpc, clink, spc, sctx, sconns>>
SessWaitConn(s) ==
  /\ spc[s] = "conns" /\ swait[s] # 0 /\ cpc[swait[s]] = "done"
  /\ sconns' = [sconns EXCEPT ![s] = @ \ {swait[s]}] /\ swait' = [swait EXCEPT ![s] = 0]
  /\ UNCHANGED <<lvars, srvCtx, srvDone, cpc, cctx, clink, spc, sctx>>
SessNotify(s) ==
  /\ spc[s] = "conns" /\ swait[s] = 0 /\ sconns[s] = {}
  /\ SessClose(s)
  /\ spc' = [spc EXCEPT ![s] = "done"]
  /\ UNCHANGED <<srvCtx, srvDone, cpc, cctx, clink, sctx, sconns, swait>>

\* a cancelled conn / session notices it
ConnSeesCtx(c) == cpc[c] = "run" /\ CDone(c) /\ ConnExit(c)
SessSeesCtx(s) == spc[s] = "run" /\ SDone(s) /\ SessExit(s)

\* ---- Server.Close -------------------------------------------------------------------
ServerCloseCall ==
  /\ ~srvCtx
  /\ CloseCall("server")
  /\ srvCtx' = TRUE
  /\ UNCHANGED <<srvDone, cpc, cctx, clink, spc, sctx, sconns, swait>>

AllGone == /\ \A c \in Conns : cpc[c] \in {"none", "done"}
           /\ \A s \in Sessions : spc[s] \in {"none", "done"}
ServerCloseReturn ==
  /\ srvCtx /\ ~srvDone /\ AllGone               \* wg.Wait()
  /\ CloseRet("server", 0)
  /\ srvDone' = TRUE
  /\ UNCHANGED <<srvCtx, cpc, cctx, clink, spc, sctx, sconns, swait>>

Next ==
  \/ \E c \in Conns : Accept(c) \/ Request(c) \/ ConnExit(c) \/ ConnRemoveHandover(c) \/ ConnRemoveSkip(c)
                      \/ ConnNotify(c)
  \/ \E c \in Conns, s \in Sessions : CreateSession(c, s)
  \/ \E s \in Sessions : SessExit(s) \/ SessCancel(s) \/ SessCloseConn(s) \/ SessWaitConn(s) \/ SessNotify(s)
  \/ ServerCloseCall \/ ServerCloseReturn
  \/ (srvDone /\ UNCHANGED <<lvars, bvars>>)          \* terminated

Fair == /\ \A c \in Conns : WF_bvars(ConnSeesCtx(c)) /\ WF_bvars(ConnRemoveHandover(c)) /\ WF_bvars(ConnRemoveSkip(c))
                            /\ WF_bvars(ConnNotify(c))
        /\ \A s \in Sessions : WF_bvars(SessSeesCtx(s)) /\ WF_bvars(SessCancel(s)) /\ WF_bvars(SessCloseConn(s))
                               /\ WF_bvars(SessWaitConn(s)) /\ WF_bvars(SessNotify(s))
        /\ WF_bvars(ServerCloseReturn)
Spec == Init /\ [][Next]_<<lvars, bvars>> /\ Fair

\* ---- checked ------------------------------------------------------------------------
\* a conn blocked in removeConn can always proceed once its session left its select
NoConnStuck == \A c \in Conns : cpc[c] = "removing" => (spc[clink[c]] \in {"run", "exit"} \/ SDone(clink[c]))
\* when the session's close notification is delivered none of its connections is still
\* reading (a connection that already left its read loop may be notified later: the two
\* notifications are not ordered)
SessAfterConns == \A s \in Sessions : spc[s] = "done" => \A c \in Conns : clink[c] = s => cpc[c] # "run"
\* Server.Close returns, and then every open has its close (B => A: CloseRet's guard)
CloseReturns == srvCtx ~> srvDone
Balanced == srvDone => (connsClosed = connsOpen /\ sessClosed = sessOpen)
=============================================================================
