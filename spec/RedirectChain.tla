--------------------------- MODULE RedirectChain ---------------------------
(***************************************************************************)
(* Level B model of the client's redirect handling (client.go: doDescribe  *)
(* on a 3xx answer with a Location): the client may be sent from server to *)
(* server any number of times; each server is reached over rtsps (TRUE) or *)
(* rtsp (FALSE). After a redirect that is followed, the scheme of the NEW  *)
(* connection is the one later redirects are judged against:               *)
(*   current connection secure and Location rtsp://  -> refused, Describe  *)
(*                                                      returns an error   *)
(*   otherwise                                       -> the connection is  *)
(*                                                      replaced, DESCRIBE *)
(*                                                      is sent again      *)
(* TLC enumerates every chain of up to MaxHops redirects, checks that no   *)
(* hop taken is a downgrade (C17, SecureProp!Redirect hop by hop) and      *)
(* exports the chains; the driver c17 builds one scripted server per       *)
(* element and lets a real Client describe the first one.                  *)
(***************************************************************************)
EXTENDS Naturals, Sequences, TLC, Json

CONSTANT MaxHops

VARIABLES chain,   \* schemes of the servers met or announced so far (TRUE = rtsps)
          cur,     \* index in chain of the server the client is connected to
          state,   \* "describing" | "refused" | "answered"
          beh
vars == <<chain, cur, state, beh>>

Init == chain \in {<<TRUE>>, <<FALSE>>} /\ cur = 1 /\ state = "describing" /\ beh = ""

Export(ch, reached, st) == ToJson([chain |-> ch, reached |-> reached, outcome |-> st])

\* the current server answers 302 with a Location whose scheme is `to`
Redirected(to) ==
  /\ state = "describing" /\ Len(chain) <= MaxHops
  /\ chain' = Append(chain, to)
  /\ IF chain[cur] /\ ~to
     THEN state' = "refused" /\ cur' = cur /\ beh' = Export(chain', cur, "refused")
     ELSE state' = "describing" /\ cur' = cur + 1 /\ beh' = ""

\* the current server answers the DESCRIBE itself
Answered ==
  /\ state = "describing"
  /\ state' = "answered" /\ UNCHANGED <<chain, cur>> /\ beh' = Export(chain, cur, "answered")

Next == Answered \/ \E to \in BOOLEAN : Redirected(to)
Spec == Init /\ [][Next]_vars

\* no hop the client has taken led from a secure connection to a clear one
NoDowngrade == \A i \in 1..(cur - 1) : ~(chain[i] /\ ~chain[i + 1])
\* a refusal happens only for a downgrade, and leaves the client where it was
RefusedRight == state = "refused" => (cur = Len(chain) - 1 /\ chain[cur] /\ ~chain[cur + 1])
=============================================================================
