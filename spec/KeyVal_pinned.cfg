SPECIFICATION Spec
CONSTANTS
  MaxLen = 5
  Ordered = FALSE
  Alphabet <- FullAlphabet
INVARIANT Confluent
CHECK_DEADLOCK FALSE
