---------------------------- MODULE FieldVectors ----------------------------
(***************************************************************************)
(* Abstract header / description values for the round-trip checks (C09,    *)
(* C05): every presence vector of the optional fields of a record with     *)
(* NFields optional fields, combined with a numeric class for the numeric  *)
(* fields ("zero", "one", "mid", "max" - the harness maps them to 0, 1, a  *)
(* mid-range value and the field's own maximum, e.g. 65535 for ports,      *)
(* 2^32-1 for SSRC) and a variant number for enumerated fields.            *)
(* TLC exports them all; the harness builds the concrete value, marshals,  *)
(* parses and compares with the real code.                                 *)
(***************************************************************************)
EXTENDS Naturals, FiniteSets, TLC, Json

CONSTANTS NFields, NVariants

VARIABLES v, beh
vars == <<v, beh>>

Classes == {"zero", "one", "mid", "max"}
Values == {[present |-> p, cls |-> c, variant |-> k] :
             p \in SUBSET (1..NFields), c \in Classes, k \in 0..(NVariants - 1)}

Init == v = [present |-> {}, cls |-> "-", variant |-> 0] /\ beh = ""
Pick == /\ beh = ""
        /\ \E x \in Values :
             /\ v' = x
             /\ beh' = ToJson([present |-> [i \in 1..NFields |-> i \in x.present],
                               cls |-> x.cls, variant |-> x.variant])
Spec == Init /\ [][Pick]_vars
=============================================================================
