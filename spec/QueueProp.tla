----------------------------- MODULE QueueProp -----------------------------
(***************************************************************************)
(* Level A (property) specification for C16: the outbound write queue      *)
(* (pkg/ringbuffer.RingBuffer driven by internal/asyncprocessor.Processor).*)
(*                                                                         *)
(* A bounded FIFO with a single consumer.  "Close discards what is         *)
(* pending"; everything else that was accepted is executed exactly once in *)
(* acceptance order.  The spec is as permissive as the statement: it says  *)
(* nothing about timing, about which goroutine does what, or about the     *)
(* ring's indices.                                                         *)
(***************************************************************************)
EXTENDS Naturals, Sequences, FiniteSets

CONSTANT Nil

VARIABLES cap,        \* configured capacity
          pending,    \* <<ids>> currently held by the queue, oldest first
          accepted,   \* <<ids>> in acceptance order                 (ghost)
          executed,   \* <<ids>> in execution order                  (ghost)
          inFlight,   \* id taken by the consumer and not yet finished, or Nil
          running,    \* id whose callback is executing, or Nil
          started,    \* consumer was started
          waiting,    \* consumer is blocked waiting for an item
          stopped,    \* consumer ended (saw the closed queue, or reported an error)
          failed,     \* an executed item returned an error
          errCount,   \* number of OnError notifications
          closed,     \* the queue was closed (pending items discarded)
          closeRet,   \* Processor.Close has returned
          lossy       \* something accepted was discarded by a close (ghost)

qvars == <<cap, pending, accepted, executed, inFlight, running, started, waiting,
           stopped, failed, errCount, closed, closeRet, lossy>>

QInit(c) ==
  /\ cap = c /\ pending = <<>> /\ accepted = <<>> /\ executed = <<>>
  /\ inFlight = Nil /\ running = Nil /\ started = FALSE /\ waiting = FALSE
  /\ stopped = FALSE /\ failed = FALSE /\ errCount = 0 /\ closed = FALSE
  /\ closeRet = FALSE /\ lossy = FALSE

\* The same as an action (a fresh queue), used when a recorded trace starts.
QReset(c) ==
  /\ cap' = c /\ pending' = <<>> /\ accepted' = <<>> /\ executed' = <<>>
  /\ inFlight' = Nil /\ running' = Nil /\ started' = FALSE /\ waiting' = FALSE
  /\ stopped' = FALSE /\ failed' = FALSE /\ errCount' = 0 /\ closed' = FALSE
  /\ closeRet' = FALSE /\ lossy' = FALSE

-----------------------------------------------------------------------------
\* Producer side.  An item is accepted iff fewer than cap items are held.
PushOk(x) ==
  /\ Len(pending) < cap
  /\ pending' = Append(pending, x)
  /\ accepted' = Append(accepted, x)
  /\ UNCHANGED <<cap, executed, inFlight, running, started, waiting, stopped,
                 failed, errCount, closed, closeRet, lossy>>

\* Refusal is allowed only when the queue holds its configured capacity.
PushFull(x) ==
  /\ Len(pending) = cap
  /\ UNCHANGED qvars

\* Consumer side.  The single consumer takes the OLDEST held item.
Start ==
  /\ ~started
  /\ started' = TRUE
  /\ UNCHANGED <<cap, pending, accepted, executed, inFlight, running, waiting,
                 stopped, failed, errCount, closed, closeRet, lossy>>

Take(x) ==
  /\ started /\ ~stopped /\ ~failed /\ ~closeRet
  /\ inFlight = Nil
  /\ pending # <<>> /\ Head(pending) = x
  /\ pending' = Tail(pending)
  /\ inFlight' = x
  /\ waiting' = FALSE
  /\ UNCHANGED <<cap, accepted, executed, running, started, stopped, failed,
                 errCount, closed, closeRet, lossy>>

\* The consumer may block only when there is nothing to take and the queue
\* is open (otherwise a push or the close that preceded would be a lost wake-up).
Wait ==
  /\ started /\ ~stopped /\ inFlight = Nil
  /\ pending = <<>> /\ ~closed
  /\ waiting' = TRUE
  /\ UNCHANGED <<cap, pending, accepted, executed, inFlight, running, started,
                 stopped, failed, errCount, closed, closeRet, lossy>>

\* A blocked consumer may be woken at any time (it re-examines the queue).
Wake ==
  /\ waiting /\ waiting' = FALSE
  /\ UNCHANGED <<cap, pending, accepted, executed, inFlight, running, started,
                 stopped, failed, errCount, closed, closeRet, lossy>>

\* (a ring may be asked again after it reported closed: it answers the same)
SeeClosed ==
  /\ started /\ inFlight = Nil
  /\ closed
  /\ stopped' = TRUE /\ waiting' = FALSE
  /\ UNCHANGED <<cap, pending, accepted, executed, inFlight, running, started,
                 failed, errCount, closed, closeRet, lossy>>

\* Nothing runs after Close has returned.
ExecBegin(x) ==
  /\ inFlight = x /\ running = Nil /\ ~closeRet
  /\ running' = x
  /\ UNCHANGED <<cap, pending, accepted, executed, inFlight, started, waiting,
                 stopped, failed, errCount, closed, closeRet, lossy>>

ExecEnd(x, err) ==
  /\ running = x /\ ~closeRet
  /\ running' = Nil /\ inFlight' = Nil
  /\ executed' = Append(executed, x)
  /\ failed' = err
  /\ UNCHANGED <<cap, pending, accepted, started, waiting, stopped, errCount,
                 closed, closeRet, lossy>>

\* A processing error stops the queue and is reported exactly once.
OnError ==
  /\ failed /\ errCount = 0 /\ ~closeRet
  /\ errCount' = 1 /\ stopped' = TRUE
  /\ UNCHANGED <<cap, pending, accepted, executed, inFlight, running, started,
                 waiting, failed, closed, closeRet, lossy>>

\* Closing the queue discards what is pending.
CloseQueue ==
  /\ closed' = TRUE /\ pending' = <<>>
  /\ lossy' = (lossy \/ pending # <<>>)
  /\ UNCHANGED <<cap, accepted, executed, inFlight, running, started, waiting,
                 stopped, failed, errCount, closeRet>>

\* Processor.Close returns only after the consumer (if started) has ended.
CloseReturn ==
  /\ closed
  /\ started => (stopped /\ inFlight = Nil /\ running = Nil)
  /\ closeRet' = TRUE
  /\ UNCHANGED <<cap, pending, accepted, executed, inFlight, running, started,
                 waiting, stopped, failed, errCount, closed, lossy>>

\* Reset re-opens a closed, idle ring (sequential use only).
ResetQueue ==
  /\ inFlight = Nil
  /\ pending' = <<>> /\ closed' = FALSE /\ stopped' = FALSE /\ waiting' = FALSE
  /\ lossy' = (lossy \/ pending # <<>>)
  /\ UNCHANGED <<cap, accepted, executed, inFlight, running, started, failed,
                 errCount, closeRet>>

\* Quiescence: producers are done and the harness has given the consumer ample
\* time.  With an open, healthy, started queue every accepted item must have
\* been executed (no lost wake-up, nothing dropped silently).
Quiescent ==
  /\ (started /\ ~closed /\ ~failed) => (pending = <<>> /\ inFlight = Nil)
  /\ failed => errCount = 1
  /\ UNCHANGED qvars

-----------------------------------------------------------------------------
Range(s) == {s[i] : i \in DOMAIN s}
NoDup(s) == Cardinality(Range(s)) = Len(s)

\* s is a subsequence of t, in order (both duplicate-free)
RECURSIVE IsSubSeq(_, _)
IsSubSeq(s, t) ==
  IF s = <<>> THEN TRUE
  ELSE IF t = <<>> THEN FALSE
  ELSE IF Head(s) = Head(t) THEN IsSubSeq(Tail(s), Tail(t))
  ELSE IsSubSeq(s, Tail(t))

\* the part of the invariant that is cheap enough to evaluate after every trace event
QInvStep ==
  /\ Len(pending) <= cap
  /\ errCount <= 1
  /\ closeRet => running = Nil

QInv ==
  /\ QInvStep
  /\ NoDup(executed)
  /\ IsSubSeq(executed, accepted)                 \* exactly once, acceptance order
  /\ (~lossy /\ inFlight = Nil) =>                \* nothing discarded: a prefix, then pending
        executed \o pending = accepted
  /\ errCount <= 1
  /\ closeRet => running = Nil
=============================================================================
