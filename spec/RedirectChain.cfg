SPECIFICATION Spec
CONSTANTS
  MaxHops = 3
INVARIANT NoDowngrade
INVARIANT RefusedRight
CHECK_DEADLOCK FALSE
