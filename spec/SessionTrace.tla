---------------------------- MODULE SessionTrace ----------------------------
(* Trace validation of real server conversations against SessionProp. *)
EXTENDS TraceIO, SessionProp

ResetAct == SReset

StepAct ==
  /\ \/ Is("req_begin")  /\ ReqBegin(Ev.m, Ev.sh, Ev.st0)
     \/ Is("req")        /\ ReqEnd(Ev.m, Ev.sh, Ev.nresp, Ev.cseqOk, Ev.status, Ev.st1, Ev.exp, Ev.udp)
     \/ Is("conn_open")  /\ UNCHANGED svars
     \/ Is("sess_open")  /\ SessOpen
     \/ Is("sess_close") /\ SessClose
     \/ Is("conn_close") /\ ConnClose
     \/ Is("cleanup")    /\ Cleanup
     \/ Is("end")        /\ End
  /\ SInv'

Next == TraceNext(ResetAct, StepAct, UNCHANGED svars)
Init == TraceInit /\ SInit
Spec == Init /\ [][Next]_<<tvars, svars>>
=============================================================================
