SPECIFICATION Spec
CONSTANTS
  NFields = 10
  NVariants = 8
CHECK_DEADLOCK FALSE
