SPECIFICATION Spec
CONSTANTS
  Idle = 70
  Period = 10
  Jitter = 3
  Horizon = 200
  Live = FALSE
INVARIANT SilentClosed
CHECK_DEADLOCK FALSE
