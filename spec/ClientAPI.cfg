SPECIFICATION Spec
CONSTANTS
  MaxLen = 4
  Calls <- AllCalls
INVARIANT PathOK
CHECK_DEADLOCK FALSE
