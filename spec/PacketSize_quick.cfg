SPECIFICATION Spec
CONSTANTS
  Maxima <- MaximaQuick
  Span = 16
INVARIANT Sound
CHECK_DEADLOCK FALSE
