package main

// C09 driver: RTSP header codecs (pkg/headers, pkg/mikey) round-trip and parse
// deterministically.
//
// Inputs (-in fileA,fileB), two TLC generators told apart by their JSON shape:
//
//  (1) token strings from KeyVal.tla  {"s":["A",";","B"],"det":..,"err":..}
//      Every header whose Unmarshal goes through keyValParse (all of them do:
//      Transport, Session, Range, RTP-Info, WWW-Authenticate, Authorization,
//      KeyMgmt) gets every token string, concretised with the header's own
//      vocabulary and separator, and parses it c09Reps times with the REAL
//      Unmarshal (Go randomises map iteration per loop, so a dependence on the
//      order of the parsed pairs shows up as differing results).
//      event: parse{h, det, panic, why}
//
//  (2) presence vectors from FieldVectors.tla {"present":[..],"cls":..,"variant":k}
//      For every header a well-formed VALUE is built (bit i = i-th optional
//      field set, cls = numeric class, variant = enumerated fields), marshalled
//      twice, parsed 8 times and compared with the original.
//      event: rt{h, eq, pure, det, panic, why}
//
// The driver only observes; HeaderTrace.tla judges.

import (
	"bytes"
	"encoding/base64"
	"encoding/json"
	"fmt"
	"math"
	"math/rand"
	"reflect"
	"runtime"
	"strings"
	"sync"
	"time"

	"github.com/bluenviron/gortsplib/v5/pkg/base"
	"github.com/bluenviron/gortsplib/v5/pkg/headers"
	"github.com/bluenviron/gortsplib/v5/pkg/mikey"

	"verifharness/internal/vt"
)

func init() { drivers["c09"] = driveC09 }

const (
	c09Reps        = 32  // repetitions of a token-string parse
	c09RtReps      = 8   // repetitions of the parse of a marshalled value
	c09ParseChunk  = 200 // token strings per trace
	c09RtChunk     = 100 // values per trace
	c09QuickSample = 28  // quick tier: 1 in N deterministic (header, string) results is logged
)

// c09beh is the union of the two behaviour shapes.
type c09beh struct {
	S       []string `json:"s"`
	Present []bool   `json:"present"`
	Cls     string   `json:"cls"`
	Variant int      `json:"variant"`
}

// c09vec is one presence vector: P bit i = i-th optional field present.
type c09vec struct {
	P int    `json:"p"`
	C string `json:"c"`
	V int    `json:"v"`
}

// c09replay is the replay descriptor of one trace.
type c09replay struct {
	Kind    string   `json:"kind"`              // "parse" | "rt"
	Strings []string `json:"strings,omitempty"` // parse: token strings, one character per token
	H       string   `json:"h,omitempty"`       // rt: header
	Vecs    []c09vec `json:"vecs,omitempty"`    // rt: vectors
}

func driveC09(a *args, s *vt.Sink) error {
	if a.replay != "" {
		var r c09replay
		if err := json.Unmarshal([]byte(a.replay), &r); err != nil {
			return err
		}
		switch r.Kind {
		case "parse":
			c09emitParse(s, "c09/replay", r.Strings, c09parseChunk(r.Strings), nil, 1)
			return nil
		case "rt":
			return c09rtTrace(s, "c09/replay", r.H, r.Vecs)
		case "mikeybin":
			c09mikeyBin(s, "c09/replay")
			return nil
		}
		return fmt.Errorf("c09: unknown replay kind %q", r.Kind)
	}
	c09mikeyBin(s, "c09/mikeybin")
	if a.in == "" {
		return fmt.Errorf("c09 needs -in")
	}
	lines, err := readLines(a.in)
	if err != nil {
		return err
	}
	var toks []string
	var vecs []c09vec
	for _, l := range lines {
		var b c09beh
		if err := json.Unmarshal([]byte(l), &b); err != nil {
			return fmt.Errorf("c09: %v in %.80q", err, l)
		}
		switch {
		case b.S != nil:
			toks = append(toks, strings.Join(b.S, ""))
		case b.Present != nil || b.Cls != "":
			v := c09vec{C: b.Cls, V: b.Variant}
			for i, p := range b.Present {
				if p && i < 30 {
					v.P |= 1 << i
				}
			}
			vecs = append(vecs, v)
		default:
			return fmt.Errorf("c09: unknown behaviour shape %.80q", l)
		}
	}

	// ---- (1) token strings ----
	sample := a.n
	if sample == 0 {
		sample = 1
		if a.tier != "thorough" {
			sample = c09QuickSample
		}
	}
	rng := rand.New(rand.NewSource(a.seed))
	var chunks [][]string
	for i := 0; i < len(toks); i += c09ParseChunk {
		j := i + c09ParseChunk
		if j > len(toks) {
			j = len(toks)
		}
		chunks = append(chunks, toks[i:j])
	}
	// the parses are independent of each other: computed in parallel, logged in input order
	results := make([][]c09pres, len(chunks))
	var wg sync.WaitGroup
	next := make(chan int)
	// the work is allocation bound (one map per parse): more than 8 workers only adds contention
	for w := 0; w < min(runtime.NumCPU(), 8); w++ {
		wg.Add(1)
		go func() {
			defer wg.Done()
			for i := range next {
				results[i] = c09parseChunk(chunks[i])
			}
		}()
	}
	for i := range chunks {
		next <- i
	}
	close(next)
	wg.Wait()
	for i, c := range chunks {
		c09emitParse(s, "c09/parse", c, results[i], rng, sample)
	}

	// ---- (2) presence vectors ----
	for _, k := range c09rtKinds {
		// distinct values only: headers with few optional fields map many vectors to the same value
		seen := map[string]bool{}
		var uniq []c09vec
		for _, v := range vecs {
			c, err := k.build(v)
			if err != nil {
				return err
			}
			if !seen[c.key] {
				seen[c.key] = true
				uniq = append(uniq, v)
			}
		}
		for i := 0; i < len(uniq); i += c09RtChunk {
			j := i + c09RtChunk
			if j > len(uniq) {
				j = len(uniq)
			}
			if err := c09rtTrace(s, "c09/rt", k.h, uniq[i:j]); err != nil {
				return err
			}
		}
	}
	return nil
}

// ===================================================================
// (1) token strings
// ===================================================================

// c09vocab concretises the token alphabet for one header.
type c09vocab struct {
	h      string
	prefix string   // makes the mandatory parts of the header present
	sep    byte     // what ";" stands for
	a, b   string   // the two keys that exclude each other
	n      []string // keys with a validated value; the i-th "N" of a string takes n[i mod len]
	x      string   // unknown key
	one    string   // what "1" stands for (a character / string valid as the value of n)
	numMax int      // how many "1" a valid value may have (0: any number)
	abVal  bool     // a and b are key=value with a validated value
	bBad   bool     // "B" is itself a field the header rejects
	parse  func(string) (any, error)
}

// a valid MIKEY message (header only, no payloads, one CS entry) for data=
var c09mikeyB64 = func() string {
	m := mikey.Message{Header: mikey.Header{Version: 1, CSBID: 7, CSIDMapInfo: []mikey.SRTPIDEntry{{SSRC: 9}}}}
	buf, err := m.Marshal()
	if err != nil {
		panic(err)
	}
	return base64.StdEncoding.EncodeToString(buf)
}()

func c09parseTransport(v string) (any, error) {
	var h headers.Transport
	err := h.Unmarshal(base.HeaderValue{v})
	return h, err
}

var c09numTransport = []string{"ttl", "client_port", "server_port", "port", "interleaved"}

var c09vocabs = []*c09vocab{
	{h: "transport:delivery", prefix: "RTP/AVP;", sep: ';', a: "unicast", b: "multicast",
		n: c09numTransport, x: "foo", one: "5", parse: c09parseTransport},
	{h: "transport:proto", sep: ';', a: "RTP/AVP", b: "RTP/AVP/TCP",
		n: c09numTransport, x: "foo", one: "5", parse: c09parseTransport},
	{h: "transport:profile", sep: ';', a: "RTP/SAVP", b: "RTP/AVP",
		n: c09numTransport, x: "foo", one: "5", parse: c09parseTransport},
	{h: "session", prefix: "A3eqwsafq3rFASqew;", sep: ';', a: "foo", b: "bar",
		n: []string{"timeout"}, x: "baz", one: "5",
		parse: func(v string) (any, error) {
			var h headers.Session
			err := h.Unmarshal(base.HeaderValue{v})
			return h, err
		}},
	// the same key twice with different values; algorithm is the only validated value ("1" = MD5)
	{h: "authorization", prefix: `Digest realm="r", nonce="n", uri="rtsp://h/s", response="x", `, sep: ',',
		a: `username="u"`, b: `username="v"`, n: []string{"algorithm"}, x: "foo", one: "MD5", numMax: 1,
		parse: func(v string) (any, error) {
			var h headers.Authorization
			err := h.Unmarshal(base.HeaderValue{v})
			return h, err
		}},
	{h: "authenticate", prefix: `Digest realm="r", nonce="n", `, sep: ',',
		a: `opaque="u"`, b: `opaque="v"`, n: []string{"algorithm"}, x: "foo", one: "MD5", numMax: 1,
		parse: func(v string) (any, error) {
			var h headers.Authenticate
			err := h.Unmarshal(base.HeaderValue{v})
			return h, err
		}},
	// Range.Unmarshal uses keyValParse with ';' (npt=..;time=..): the two units exclude each other,
	// time= is the validated value ("1" = a valid UTC time)
	{h: "range", sep: ';', a: "npt=1-", b: "smpte=0:00:02-", n: []string{"time"}, x: "foo",
		one: "20060102T150405Z", numMax: 1, abVal: true,
		parse: func(v string) (any, error) {
			var h headers.Range
			err := h.Unmarshal(base.HeaderValue{v})
			return h, err
		}},
	{h: "rtpinfo", prefix: "url=rtsp://h/s;", sep: ';', a: "foo", b: "bar",
		n: []string{"seq", "rtptime"}, x: "baz", one: "5",
		parse: func(v string) (any, error) {
			var h headers.RTPInfo
			err := h.Unmarshal(base.HeaderValue{v})
			return h, err
		}},
	// prot= twice with different values (the second one is rejected), data= is validated ("1" = a valid message)
	{h: "keymgmt", prefix: `uri="rtsp://h/s";`, sep: ';', a: "prot=mikey", b: "prot=other",
		n: []string{"data"}, x: "foo", one: c09mikeyB64, numMax: 1, abVal: true, bBad: true,
		parse: func(v string) (any, error) {
			var h headers.KeyMgmt
			err := h.Unmarshal(base.HeaderValue{v})
			return h, err
		}},
}

// c09concrete turns a token string into a header string.
func (v *c09vocab) concrete(tok string) string {
	var b strings.Builder
	b.WriteString(v.prefix)
	nn := 0
	for i := 0; i < len(tok); i++ {
		switch tok[i] {
		case 'A':
			b.WriteString(v.a)
		case 'B':
			b.WriteString(v.b)
		case 'N':
			b.WriteString(v.n[nn%len(v.n)])
			nn++
		case 'X':
			b.WriteString(v.x)
		case '=':
			b.WriteByte('=')
		case ';':
			b.WriteByte(v.sep)
		case 'q':
			b.WriteByte('"')
		case 's':
			b.WriteByte(' ')
		case '1':
			b.WriteString(v.one)
		case 'z':
			b.WriteByte('z')
		default:
			b.WriteByte(tok[i])
		}
	}
	return b.String()
}

// c09why classifies a token string (a label for grouping rejections, not a verdict):
// "conflicting_keys" both A and B occur; "two_bad_fields" two or more distinct fields
// whose value the header rejects; "other".
func (v *c09vocab) why(tok string) string {
	if strings.IndexByte(tok, 'A') >= 0 && strings.IndexByte(tok, 'B') >= 0 {
		return "conflicting_keys"
	}
	// the tokenizer of keyValParse over tokens (KeyVal.tla ParsePairs)
	bad := map[string]bool{}
	s, off := tok, 0
	adv := func(n int) { s, off = s[n:], off+n }
	if v.prefix != "" {
		// the prefix ends with a separator: the spaces that follow it are skipped
		for len(s) > 0 && s[0] == 's' {
			adv(1)
		}
	}
	for len(s) > 0 {
		i := 0
		for i < len(s) && s[i] != '=' && s[i] != ';' {
			i++
		}
		key, kpos := s[:i], off
		adv(i)
		val, hasEq := "", false
		if len(s) > 0 && s[0] == '=' {
			hasEq = true
			adv(1)
			// (A / B already contain their '=': what follows them is never a quoted value)
			if len(s) > 0 && s[0] == 'q' && !(v.abVal && key != "" && (key[0] == 'A' || key[0] == 'B')) {
				e := strings.IndexByte(s[1:], 'q')
				if e < 0 {
					return "other" // apexes not closed: the whole string is rejected
				}
				val = s[1 : 1+e]
				adv(e + 2)
			} else {
				e := strings.IndexByte(s, ';')
				if e < 0 {
					e = len(s)
				}
				val = s[:e]
				adv(e)
			}
		}
		if len(s) > 0 && s[0] == ';' {
			adv(1)
		}
		for len(s) > 0 && s[0] == 's' {
			adv(1)
		}
		switch {
		case key == "N":
			ck := v.n[strings.Count(tok[:kpos], "N")%len(v.n)]
			ok := val != "" && strings.Trim(val, "1") == "" && (v.numMax == 0 || len(val) <= v.numMax)
			bad[ck] = !ok // a later occurrence of the same key replaces the value
		case v.abVal && key != "" && (key[0] == 'A' || key[0] == 'B'):
			// A / B stand for key=value: anything appended to them spoils the value
			word := v.a
			if key[0] == 'B' {
				word = v.b
			}
			ck, _, _ := strings.Cut(word, "=")
			bad[ck] = len(key) > 1 || hasEq || (key[0] == 'B' && v.bBad)
		}
	}
	n := 0
	for _, b := range bad {
		if b {
			n++
		}
	}
	if n >= 2 {
		return "two_bad_fields"
	}
	return "other"
}

type c09out struct {
	val      any
	err      string
	failed   bool
	panicked bool
}

func c09once(parse func(string) (any, error), v string) (o c09out) {
	defer func() {
		if p := recover(); p != nil {
			o = c09out{failed: true, panicked: true, err: "panic: " + fmt.Sprint(p)}
		}
	}()
	val, err := parse(v)
	if err != nil {
		return c09out{failed: true, err: err.Error()}
	}
	return c09out{val: val}
}

// same outcome: both failed with the same text, or both succeeded with deeply equal values
func c09same(a, b c09out) bool {
	if a.failed != b.failed {
		return false
	}
	if a.failed {
		return a.err == b.err
	}
	return reflect.DeepEqual(a.val, b.val)
}

// c09pres is the observation for one (header, string).
type c09pres struct {
	det, panicked bool
	why           string
}

// c09parseChunk parses every string with every header; results in (string, header) order.
func c09parseChunk(toks []string) []c09pres {
	out := make([]c09pres, 0, len(toks)*len(c09vocabs))
	for _, tok := range toks {
		for _, v := range c09vocabs {
			str := v.concrete(tok)
			r := c09pres{det: true, why: v.why(tok)}
			first := c09once(v.parse, str)
			r.panicked = first.panicked
			for i := 1; i < c09Reps; i++ {
				o := c09once(v.parse, str)
				if o.panicked {
					r.panicked = true
				}
				if r.det && !c09same(first, o) {
					r.det = false
				}
			}
			out = append(out, r)
		}
	}
	return out
}

// c09mikeyBin: MIKEY messages with 1 .. 255 crypto sessions (all payload kinds present), cut
// short at every byte of their binary form, parsed repeatedly as a message and inside a KeyMgmt
// header: each outcome must be a value or an error, the same every time (sizes computed from
// the announced counts must not wrap).
func c09mikeyBin(s *vt.Sink, class string) {
	desc, _ := json.Marshal(c09replay{Kind: "mikeybin"})
	tr := s.Begin(class, string(desc))
	defer tr.End()
	parseMsg := func(v string) (any, error) {
		var m mikey.Message
		err := m.Unmarshal([]byte(v))
		return m, err
	}
	parseKM := func(v string) (any, error) {
		var h headers.KeyMgmt
		err := h.Unmarshal(base.HeaderValue{v})
		return h, err
	}
	for _, ncs := range []int{1, 2, 28, 29, 30, 57, 114, 255} {
		m, _ := c09mkMikey(0x0F, 2, 0) // T, RAND, SP, KEMAC
		m.Header.CSIDMapInfo = nil
		for i := 0; i < ncs; i++ {
			m.Header.CSIDMapInfo = append(m.Header.CSIDMapInfo,
				mikey.SRTPIDEntry{PolicyNo: uint8(i), SSRC: uint32(i) * 0x01010101, ROC: uint32(i)})
		}
		bin, err := m.Marshal()
		if err != nil {
			tr.Emit("parse", "h", "mikey.bin", "det", false, "panic", false, "why", "marshal_failed", "s", fmt.Sprint(ncs))
			continue
		}
		for cut := 0; cut <= len(bin); cut++ {
			if ncs > 30 && cut > 40 && cut%7 != 0 && cut < len(bin)-40 {
				continue
			}
			for k, parse := range []func(string) (any, error){parseMsg, parseKM} {
				str := string(bin[:cut])
				if k == 1 {
					str = `prot=mikey;uri="rtsp://h/s";data="` + base64.StdEncoding.EncodeToString(bin[:cut]) + `"`
				}
				first := c09once(parse, str)
				det, panicked := true, first.panicked
				for i := 1; i < c09Reps; i++ {
					o := c09once(parse, str)
					panicked = panicked || o.panicked
					det = det && c09same(first, o)
				}
				if !det || panicked || cut%16 == 0 || cut == len(bin) {
					tr.Emit("parse", "h", [2]string{"mikey.bin", "keymgmt.bin"}[k], "det", det, "panic", panicked,
						"why", "mikey_truncated", "s", fmt.Sprintf("%d:%d", ncs, cut))
				}
			}
		}
	}
	tr.Emit("end")
}

// c09emitParse logs one trace. rng == nil or sample == 1: everything; otherwise deterministic,
// non-panicking results are logged 1 in `sample`; the others always.
func c09emitParse(s *vt.Sink, class string, toks []string, res []c09pres, rng *rand.Rand, sample int) {
	desc, _ := json.Marshal(c09replay{Kind: "parse", Strings: toks})
	tr := s.Begin(class, string(desc))
	defer tr.End()
	i := 0
	for _, tok := range toks {
		for _, v := range c09vocabs {
			r := res[i]
			i++
			keep := true
			if rng != nil && sample > 1 {
				keep = rng.Intn(sample) == 0 // drawn for every result, so the stream does not depend on outcomes
			}
			if keep || !r.det || r.panicked {
				tr.Emit("parse", "h", v.h, "det", r.det, "panic", r.panicked, "why", r.why, "s", tok)
			}
		}
	}
	tr.Emit("end")
}

// ===================================================================
// (2) presence vectors
// ===================================================================

// c09case is one value of one header together with its codec.
type c09case struct {
	key     string // identity of the value (deduplication)
	why     string // class of the value
	orig    any    // the value, normalised
	marshal func() (any, error)
	parse   func(m any) (any, error) // parsed value, as the library returned it
	norm    func(v any) any          // normalisation applied before a parsed value is compared (nil: none)
}

func (c *c09case) normed(v any) any {
	if c.norm == nil || v == nil {
		return v
	}
	return c.norm(v)
}

type c09rtKind struct {
	h     string
	build func(v c09vec) (c09case, error)
}

func c09ptr[T any](v T) *T { return &v }

func c09cls(c string) (int, error) {
	switch c {
	case "zero":
		return 0, nil
	case "one":
		return 1, nil
	case "mid":
		return 2, nil
	case "max":
		return 3, nil
	}
	return 0, fmt.Errorf("c09: unknown class %q", c)
}

func c09bit(p, i int) bool { return p&(1<<i) != 0 }

func c09key(h, why string, orig any) string {
	j, err := json.Marshal(orig)
	if err != nil {
		panic(err)
	}
	return h + "|" + why + "|" + string(j)
}

// ---- Transport ----

// Optional fields in the order of the presence bits. The struct order is Delivery, Source2,
// Destination2, InterleavedIDs, TTL, Ports, ClientPorts, ServerPorts, SSRC, Mode; the two
// free-text fields are moved to the end so that the 8-bit quick vectors reach SSRC and Mode.
//
//	0 Delivery  1 InterleavedIDs  2 TTL  3 Ports  4 ClientPorts  5 ServerPorts  6 SSRC  7 Mode
//	8 Source2   9 Destination2
func c09mkTransport(p, cls, variant int) headers.Transport {
	type combo struct {
		prof  headers.TransportProfile
		proto headers.TransportProtocol
		deliv headers.TransportDelivery
		mode  headers.TransportMode
	}
	combos := []combo{
		{headers.TransportProfileAVP, headers.TransportProtocolUDP, headers.TransportDeliveryUnicast, headers.TransportModePlay},
		{headers.TransportProfileAVP, headers.TransportProtocolTCP, headers.TransportDeliveryUnicast, headers.TransportModeRecord},
		{headers.TransportProfileSAVP, headers.TransportProtocolUDP, headers.TransportDeliveryMulticast, headers.TransportModePlay},
		{headers.TransportProfileSAVP, headers.TransportProtocolTCP, headers.TransportDeliveryMulticast, headers.TransportModeRecord},
		{headers.TransportProfileAVP, headers.TransportProtocolUDP, headers.TransportDeliveryMulticast, headers.TransportModeRecord},
		{headers.TransportProfileAVP, headers.TransportProtocolTCP, headers.TransportDeliveryMulticast, headers.TransportModePlay},
		{headers.TransportProfileSAVP, headers.TransportProtocolUDP, headers.TransportDeliveryUnicast, headers.TransportModeRecord},
		{headers.TransportProfileSAVP, headers.TransportProtocolTCP, headers.TransportDeliveryUnicast, headers.TransportModePlay},
	}
	c := combos[variant%len(combos)]
	t := headers.Transport{Profile: c.prof, Protocol: c.proto}
	pair := func(vals [4]int) *[2]int { return &[2]int{vals[cls], vals[cls] + 1} }
	if c09bit(p, 0) {
		t.Delivery = c09ptr(c.deliv)
	}
	if c09bit(p, 1) {
		t.InterleavedIDs = pair([4]int{0, 1, 100, 254})
	}
	if c09bit(p, 2) {
		t.TTL = c09ptr([4]uint{0, 1, 127, 255}[cls])
	}
	if c09bit(p, 3) {
		t.Ports = pair([4]int{0, 1, 5004, 65534})
	}
	if c09bit(p, 4) {
		t.ClientPorts = pair([4]int{0, 1, 5000, 65534})
	}
	if c09bit(p, 5) {
		t.ServerPorts = pair([4]int{0, 1, 6970, 65534})
	}
	if c09bit(p, 6) {
		t.SSRC = c09ptr([4]uint32{0, 1, 0x12345678, 0xFFFFFFFF}[cls])
	}
	if c09bit(p, 7) {
		t.Mode = c09ptr(c.mode)
	}
	if c09bit(p, 8) {
		t.Source2 = c09ptr([4]string{"0.0.0.0", "127.0.0.1", "host.example.com", "[2001:db8::ff00:42:8329]"}[cls])
	}
	if c09bit(p, 9) {
		t.Destination2 = c09ptr([4]string{"0.0.0.0", "224.1.0.1", "mcast.example.com", "[ff02::1]"}[cls])
	}
	return t
}

func c09hv(m any, err error) (any, error) { return m, err }

// ---- strings for the authentication headers ----

var (
	// (a backslash inside a quoted field is written and read back verbatim by these codecs)
	c09realms = [4]string{"", `cams\floor2`, "IP Camera(21388)",
		"A realm with spaces, commas; semicolons = equal signs: and colons " + strings.Repeat("long ", 30)}
	c09nonces = [4]string{"0", "n", "8b84a3b789283a8bea8da7fa7d41f08b", strings.Repeat("0123456789abcdef", 8)}
	c09opaque = [4]string{"", "o", "5ccc069c403ebaf9f0171e9517f40e41", "opaque, with=separators; inside"}
	c09uris   = [4]string{"*", "/", "rtsp://myhost:8554/mypath?key=val&a=b,c", "rtsp://[::1]:8554/" + strings.Repeat("seg/", 40)}
	c09resps  = [4]string{"0", "f", "6629fae49393a05397450978507c4ef1", strings.Repeat("ab", 32)}
	c09users  = [4]string{"u", `CORP\operator`, "John Doe", "user@example.com"}
	// passwords: empty, plain, with a space, with colons (RFC 7617: only the user name cannot hold ':')
	c09passes   = [4]string{"", "p", "pass word", "pa:ss:word"}
	c09passWhys = [4]string{"basic_empty_pass", "basic_plain_pass", "basic_space_pass", "basic_colon_pass"}
)

// ---- Range ----

func c09mkRange(p, cls, variant int) (headers.Range, string) {
	ms := time.Millisecond
	sec := time.Second
	utc := func(y int, mo time.Month, d, h, mi, s int) time.Time {
		return time.Date(y, mo, d, h, mi, s, 0, time.UTC)
	}
	clockA := [4]time.Time{utc(1970, 1, 1, 0, 0, 0), utc(1970, 1, 1, 0, 0, 1), utc(2021, 3, 4, 5, 6, 7), utc(9999, 12, 31, 22, 59, 59)}
	// the second set has millisecond resolution (RFC 2326 3.7: utc-time = 6DIGIT [ "." fraction ])
	clockB := [4]time.Time{utc(2000, 2, 29, 12, 0, 0), utc(1999, 12, 31, 23, 59, 59).Add(500 * ms),
		utc(2038, 1, 19, 3, 14, 8).Add(123 * ms), utc(2262, 4, 11, 22, 47, 16).Add(1 * ms)}
	end := c09bit(p, 0)
	var r headers.Range
	var why string
	npt := func(starts [4]time.Duration, span time.Duration) {
		v := &headers.RangeNPT{Start: starts[cls]}
		if end {
			v.End = c09ptr(starts[cls] + span)
		}
		r.Value = v
	}
	smpte := func(frames bool) {
		t := [4]time.Duration{0, sec, 3661 * sec, 359989 * sec}[cls]
		v := &headers.RangeSMPTE{Start: headers.RangeSMPTETime{Time: t}}
		if frames {
			v.Start.Frame = [4]uint{0, 1, 15, 29}[cls]
			v.Start.Subframe = [4]uint{1, 0, 50, 99}[cls]
		}
		if end {
			e := headers.RangeSMPTETime{Time: t + 10*sec}
			if frames {
				e.Frame = [4]uint{2, 0, 7, 29}[cls]
				e.Subframe = [4]uint{0, 0, 5, 99}[cls]
			}
			v.End = &e
		}
		r.Value = v
	}
	clock := func(ts [4]time.Time) {
		v := &headers.RangeUTC{Start: ts[cls]}
		if end {
			v.End = c09ptr(ts[cls].Add(time.Hour))
		}
		r.Value = v
	}
	switch variant % 8 {
	case 0: // multiples of 1/8 s: exactly representable in binary floating point
		why = "npt_eighths"
		npt([4]time.Duration{0, sec, 3661*sec + 250*ms, 86399*sec + 875*ms}, 10*sec+500*ms)
	case 1:
		why = "smpte"
		smpte(false)
	case 2:
		why = "clock"
		clock(clockA)
	case 3: // millisecond resolution
		why = "npt_ms"
		npt([4]time.Duration{1 * ms, sec + 1*ms, 3661*sec + 1*ms, 86399*sec + 999*ms}, 2*ms)
	case 4:
		why = "npt_tenths"
		npt([4]time.Duration{100 * ms, sec + 100*ms, 3661*sec + 300*ms, 86399*sec + 700*ms}, 200*ms)
	case 5:
		why = "smpte_frames"
		smpte(true)
	case 6:
		why = "npt_ms"
		npt([4]time.Duration{123 * ms, sec + 57*ms, 3661*sec + 789*ms, 359999*sec + 998*ms}, 1*ms)
	case 7:
		why = "clock_ms"
		clock(clockB)
	}
	if c09bit(p, 1) {
		r.Time = c09ptr(clockB[cls])
	}
	return r, why
}

// ---- MIKEY ----

func c09bytes(n, salt int) []byte {
	b := make([]byte, n)
	for i := range b {
		b[i] = byte(i*7 + salt)
	}
	return b
}

// presence bits: 0 T, 1 RAND, 2 SP, 3 KEMAC, 4 second key data sub-payload, 5 salt appended to the
// key data, 6 CS ID map entries, 7 SP policy params. variant mod 4 = key validity of the sub-payloads
// (Null / SPI / SPI of length 0 / first SPI and second Null); variant >= 4: payloads in reverse order.
func c09mkMikey(p, cls, variant int) (*mikey.Message, string) {
	n8 := [4]uint8{0, 1, 0x55, 255}[cls]
	n32 := [4]uint32{0, 1, 0x12345678, 0xFFFFFFFF}[cls]
	n64 := [4]uint64{0, 1, 0x0123456789ABCDEF, math.MaxUint64}[cls]
	m := &mikey.Message{Header: mikey.Header{Version: 1, CSBID: n32}}
	if c09bit(p, 6) {
		for i := 0; i < [4]int{1, 1, 2, 255}[cls]; i++ {
			m.Header.CSIDMapInfo = append(m.Header.CSIDMapInfo,
				mikey.SRTPIDEntry{PolicyNo: n8, SSRC: n32 ^ uint32(i), ROC: n32 ^ uint32(i<<8)})
		}
	}
	if c09bit(p, 0) {
		m.Payloads = append(m.Payloads, &mikey.PayloadT{TSType: 0, TSValue: n64})
	}
	if c09bit(p, 1) {
		m.Payloads = append(m.Payloads, &mikey.PayloadRAND{Data: c09bytes([4]int{16, 17, 32, 255}[cls], 1)})
	}
	if c09bit(p, 2) {
		sp := &mikey.PayloadSP{PolicyNo: n8, ProtType: mikey.PayloadSPProtTypeSRTP}
		if c09bit(p, 7) {
			for i := 0; i < [4]int{1, 2, 6, 13}[cls]; i++ {
				sp.PolicyParams = append(sp.PolicyParams, mikey.PayloadSPPolicyParam{
					Type:  mikey.PayloadSPPolicyParamType(i),
					Value: c09bytes([4]int{0, 1, 1, 255}[cls]*((i+1)%2)+i%2, i),
				})
			}
		}
		m.Payloads = append(m.Payloads, sp)
	}
	kv := variant % 4
	why := "mikey_nokemac"
	if c09bit(p, 3) {
		why = [4]string{"mikey_kv_null", "mikey_kv_spi", "mikey_kv_spi_empty", "mikey_kv_mixed"}[kv]
		k := &mikey.PayloadKEMAC{}
		nsub := 1
		if c09bit(p, 4) {
			nsub = 2
		}
		for i := 0; i < nsub; i++ {
			klen := [4]int{0, 1, 16, 4096}[cls]
			if c09bit(p, 5) {
				klen += 14 // master salt
			}
			sp := &mikey.SubPayloadKeyData{Type: mikey.SubPayloadKeyDataTypeTEK, KeyData: c09bytes(klen, 3+i)}
			switch {
			case kv == 1, kv == 3 && i == 0:
				sp.KV = mikey.SubPayloadKeyDataKVSPI
				sp.SPI = c09bytes([4]int{1, 1, 4, 255}[cls], 5+i)
			case kv == 2:
				sp.KV = mikey.SubPayloadKeyDataKVSPI
				sp.SPI = []byte{}
			}
			k.SubPayloads = append(k.SubPayloads, sp)
		}
		m.Payloads = append(m.Payloads, k)
	}
	if variant%8 >= 4 {
		for i, j := 0, len(m.Payloads)-1; i < j; i, j = i+1, j-1 {
			m.Payloads[i], m.Payloads[j] = m.Payloads[j], m.Payloads[i]
		}
	}
	return m, why
}

// c09normMikey returns a deep copy in which every empty slice is nil. NORMALISATION: the wire format
// carries lengths only, so the API cannot tell a nil slice from an empty one (CS ID map, RAND data,
// policy params and their values, key data, SPI); the parser returns empty non-nil slices for
// zero-length fields and slices aliasing its input for the others (the copy detaches them).
func c09normMikey(m *mikey.Message) *mikey.Message {
	if m == nil {
		return nil
	}
	nb := func(b []byte) []byte {
		if len(b) == 0 {
			return nil
		}
		return append([]byte(nil), b...)
	}
	out := &mikey.Message{Header: m.Header}
	out.Header.CSIDMapInfo = nil
	if len(m.Header.CSIDMapInfo) > 0 {
		out.Header.CSIDMapInfo = append([]mikey.SRTPIDEntry(nil), m.Header.CSIDMapInfo...)
	}
	for _, pl := range m.Payloads {
		switch x := pl.(type) {
		case *mikey.PayloadT:
			q := *x
			out.Payloads = append(out.Payloads, &q)
		case *mikey.PayloadRAND:
			out.Payloads = append(out.Payloads, &mikey.PayloadRAND{Data: nb(x.Data)})
		case *mikey.PayloadSP:
			q := &mikey.PayloadSP{PolicyNo: x.PolicyNo, ProtType: x.ProtType}
			for _, pp := range x.PolicyParams {
				q.PolicyParams = append(q.PolicyParams, mikey.PayloadSPPolicyParam{Type: pp.Type, Value: nb(pp.Value)})
			}
			out.Payloads = append(out.Payloads, q)
		case *mikey.PayloadKEMAC:
			q := &mikey.PayloadKEMAC{EncrAlg: x.EncrAlg, MacAlg: x.MacAlg}
			for _, sp := range x.SubPayloads {
				if sp == nil {
					q.SubPayloads = append(q.SubPayloads, nil)
					continue
				}
				q.SubPayloads = append(q.SubPayloads, &mikey.SubPayloadKeyData{
					Type: sp.Type, KV: sp.KV, KeyData: nb(sp.KeyData), SPI: nb(sp.SPI),
				})
			}
			out.Payloads = append(out.Payloads, q)
		default:
			out.Payloads = append(out.Payloads, pl)
		}
	}
	return out
}

// ---- the header kinds ----

var c09rtKinds = []*c09rtKind{
	{h: "Transport", build: func(v c09vec) (c09case, error) {
		cls, err := c09cls(v.C)
		t := c09mkTransport(v.P, cls, v.V)
		return c09case{key: c09key("Transport", "plain", t), why: "plain", orig: t,
			marshal: func() (any, error) { return t.Marshal(), nil },
			parse: func(m any) (any, error) {
				var h headers.Transport
				e := h.Unmarshal(m.(base.HeaderValue))
				return h, e
			}}, err
	}},
	// two transports in one header: the vector's and the one of the next variant with the complement fields
	{h: "Transports", build: func(v c09vec) (c09case, error) {
		cls, err := c09cls(v.C)
		ts := headers.Transports{c09mkTransport(v.P, cls, v.V), c09mkTransport(^v.P&0x3FF, cls, v.V+1)}
		return c09case{key: c09key("Transports", "plain", ts), why: "plain", orig: ts,
			marshal: func() (any, error) { return ts.Marshal(), nil },
			parse: func(m any) (any, error) {
				var h headers.Transports
				e := h.Unmarshal(m.(base.HeaderValue))
				return h, e
			}}, err
	}},
	// bit 0: Timeout
	{h: "Session", build: func(v c09vec) (c09case, error) {
		cls, err := c09cls(v.C)
		ids := []string{"A3eqwsafq3rFASqew", "0", "a-b_c.d+e$f", strings.Repeat("Z9", 64),
			"12345678", "x", "Sess.ion-ID_$+", "ffffffffffffffffffffffffffffffff"}
		h := headers.Session{Session: ids[v.V%len(ids)]}
		if c09bit(v.P, 0) {
			h.Timeout = c09ptr([4]uint{0, 1, 60, 4294967295}[cls])
		}
		return c09case{key: c09key("Session", "plain", h), why: "plain", orig: h,
			marshal: func() (any, error) { return h.Marshal(), nil },
			parse: func(m any) (any, error) {
				var x headers.Session
				e := x.Unmarshal(m.(base.HeaderValue))
				return x, e
			}}, err
	}},
	// bit 0: End, bit 1: Time
	{h: "Range", build: func(v c09vec) (c09case, error) {
		cls, err := c09cls(v.C)
		h, why := c09mkRange(v.P, cls, v.V)
		return c09case{key: c09key("Range", why, h), why: why, orig: h,
			marshal: func() (any, error) { return h.Marshal(), nil },
			parse: func(m any) (any, error) {
				var x headers.Range
				e := x.Unmarshal(m.(base.HeaderValue))
				return x, e
			}}, err
	}},
	// variant mod 3 + 1 entries, variant / 3 = URL form; entry e: bit 2e SequenceNumber, bit 2e+1 Timestamp
	{h: "RTP-Info", build: func(v c09vec) (c09case, error) {
		cls, err := c09cls(v.C)
		form := (v.V / 3) % 3
		why := [3]string{"abs_url", "query_url", "rel_url"}[form]
		var h headers.RTPInfo
		for e := 0; e < v.V%3+1; e++ {
			ent := &headers.RTPInfoEntry{URL: fmt.Sprintf([3]string{"rtsp://127.0.0.1/test.mkv/track%d",
				"rtsp://user@host.example.com:8554/a/b?x=1&y=2/trackID=%d", "trackID=%d"}[form], e)}
			if c09bit(v.P, 2*e) {
				ent.SequenceNumber = c09ptr([4]uint16{0, 1, 32768, 65535}[cls] ^ uint16(e))
			}
			if c09bit(v.P, 2*e+1) {
				ent.Timestamp = c09ptr([4]uint32{0, 1, 0x12345678, 0xFFFFFFFF}[cls] ^ uint32(e))
			}
			h = append(h, ent)
		}
		return c09case{key: c09key("RTP-Info", why, h), why: why, orig: h,
			marshal: func() (any, error) { return h.Marshal(), nil },
			parse: func(m any) (any, error) {
				var x headers.RTPInfo
				e := x.Unmarshal(m.(base.HeaderValue))
				return x, e
			}}, err
	}},
	// variant mod 4: Basic / Digest MD5 / Digest SHA-256 / Digest MD5 with the strings of the next class;
	// bit 0 Opaque, bit 1 Stale, bit 2 Algorithm. cls selects the strings.
	{h: "WWW-Authenticate", build: func(v c09vec) (c09case, error) {
		cls, err := c09cls(v.C)
		var h headers.Authenticate
		var why string
		if v.V%4 == 0 {
			why = "basic"
			h = headers.Authenticate{Method: headers.AuthMethodBasic, Realm: c09realms[cls]}
		} else {
			sc := cls
			if v.V%4 == 3 {
				sc = (cls + 1) % 4
			}
			h = headers.Authenticate{Method: headers.AuthMethodDigest, Realm: c09realms[cls], Nonce: c09nonces[sc]}
			why = "digest_noalg"
			if c09bit(v.P, 0) {
				h.Opaque = c09ptr(c09opaque[sc])
			}
			if c09bit(v.P, 1) {
				h.Stale = c09ptr([4]string{"FALSE", "TRUE", "false", "true"}[sc])
			}
			if c09bit(v.P, 2) {
				if v.V%4 == 2 {
					h.Algorithm = c09ptr(headers.AuthAlgorithmSHA256)
					why = "digest_sha256"
				} else {
					h.Algorithm = c09ptr(headers.AuthAlgorithmMD5)
					why = "digest_md5"
				}
			}
		}
		return c09case{key: c09key("WWW-Authenticate", why, h), why: why, orig: h,
			marshal: func() (any, error) { return h.Marshal(), nil },
			parse: func(m any) (any, error) {
				var x headers.Authenticate
				e := x.Unmarshal(m.(base.HeaderValue))
				return x, e
			}}, err
	}},
	// variant mod 4: Basic (cls = password form, variant / 4 + bits 0..1 = user name) / Digest MD5 /
	// Digest SHA-256 / Digest MD5 with the strings of the next class; bit 0 Opaque, bit 1 Algorithm.
	{h: "Authorization", build: func(v c09vec) (c09case, error) {
		cls, err := c09cls(v.C)
		var h headers.Authorization
		var why string
		if v.V%4 == 0 {
			why = c09passWhys[cls]
			h = headers.Authorization{Method: headers.AuthMethodBasic,
				Username: c09users[(v.V/4+v.P)%4], BasicPass: c09passes[cls]}
		} else {
			sc := cls
			if v.V%4 == 3 {
				sc = (cls + 1) % 4
			}
			h = headers.Authorization{Method: headers.AuthMethodDigest, Username: c09users[sc],
				Realm: c09realms[cls], Nonce: c09nonces[sc], URI: c09uris[sc], Response: c09resps[sc]}
			why = "digest_noalg"
			if c09bit(v.P, 0) {
				h.Opaque = c09ptr(c09opaque[sc])
			}
			if c09bit(v.P, 1) {
				if v.V%4 == 2 {
					h.Algorithm = c09ptr(headers.AuthAlgorithmSHA256)
					why = "digest_sha256"
				} else {
					h.Algorithm = c09ptr(headers.AuthAlgorithmMD5)
					why = "digest_md5"
				}
			}
		}
		return c09case{key: c09key("Authorization", why, h), why: why, orig: h,
			marshal: func() (any, error) { return h.Marshal(), nil },
			parse: func(m any) (any, error) {
				var x headers.Authorization
				e := x.Unmarshal(m.(base.HeaderValue))
				return x, e
			}}, err
	}},
	{h: "KeyMgmt", build: func(v c09vec) (c09case, error) {
		cls, err := c09cls(v.C)
		msg, why := c09mkMikey(v.P, cls, v.V)
		h := headers.KeyMgmt{
			URL: [4]string{"rtsp://h/s", "rtsp://127.0.0.1:8554/stream",
				"rtsp://host.example.com:8554/path/to/stream?x=1;y=2", "rtsp://[::1]:8554/" + strings.Repeat("seg/", 40)}[cls],
			MikeyMessage: msg,
		}
		orig := headers.KeyMgmt{URL: h.URL, MikeyMessage: c09normMikey(msg)}
		return c09case{key: c09key("KeyMgmt", why, orig), why: why, orig: orig,
			marshal: func() (any, error) { return c09hv(h.Marshal()) },
			parse: func(m any) (any, error) {
				var x headers.KeyMgmt
				e := x.Unmarshal(m.(base.HeaderValue))
				return x, e
			},
			norm: func(a any) any {
				x := a.(headers.KeyMgmt)
				x.MikeyMessage = c09normMikey(x.MikeyMessage)
				return x
			}}, err
	}},
	{h: "mikey.Message", build: func(v c09vec) (c09case, error) {
		cls, err := c09cls(v.C)
		msg, why := c09mkMikey(v.P, cls, v.V)
		orig := c09normMikey(msg)
		return c09case{key: c09key("mikey.Message", why, orig), why: why, orig: orig,
			marshal: func() (any, error) { return c09hv(msg.Marshal()) },
			parse: func(m any) (any, error) {
				var x mikey.Message
				e := x.Unmarshal(m.([]byte))
				return &x, e
			},
			norm: func(a any) any { return c09normMikey(a.(*mikey.Message)) }}, err
	}},
}

func c09mEqual(a, b any) bool {
	if x, ok := a.([]byte); ok {
		y, ok2 := b.([]byte)
		return ok2 && bytes.Equal(x, y)
	}
	return reflect.DeepEqual(a, b)
}

// c09rtOne runs one value; every call into the library is guarded.
func c09rtOne(c c09case) (eq, pure, det, panicked bool, why string) {
	eq, pure, det, panicked, why, _ = c09rtOneVal(c)
	return
}

// c09rtOneVal also returns the value obtained by the first parse (nil if it failed).
func c09rtOneVal(c c09case) (eq, pure, det, panicked bool, why string, parsed any) {
	why = c.why
	type mres struct {
		m   any
		err error
	}
	doMarshal := func() (r mres, p bool) {
		defer func() {
			if x := recover(); x != nil {
				r, p = mres{err: fmt.Errorf("panic: %v", x)}, true
			}
		}()
		m, err := c.marshal()
		return mres{m, err}, false
	}
	m1, p1 := doMarshal()
	m2, p2 := doMarshal()
	panicked = p1 || p2
	if m1.err != nil || m2.err != nil {
		// a well-formed value that cannot be marshalled: nothing to parse
		pure = m1.err != nil && m2.err != nil && m1.err.Error() == m2.err.Error()
		return false, pure, true, panicked, why, nil
	}
	pure = c09mEqual(m1.m, m2.m)
	doParse := func() (o c09out) {
		defer func() {
			if x := recover(); x != nil {
				o = c09out{failed: true, panicked: true, err: "panic: " + fmt.Sprint(x)}
			}
		}()
		val, err := c.parse(m1.m)
		if err != nil {
			return c09out{failed: true, err: err.Error()}
		}
		return c09out{val: val}
	}
	first := doParse()
	det = true
	panicked = panicked || first.panicked
	for i := 1; i < c09RtReps; i++ {
		o := doParse()
		panicked = panicked || o.panicked
		fn, on := first, o
		fn.val, on.val = c.normed(first.val), c.normed(o.val)
		if !c09same(fn, on) {
			det = false
		}
	}
	eq = !first.failed && reflect.DeepEqual(c.normed(first.val), c.orig)
	return eq, pure, det, panicked, why, first.val
}

func c09rtTrace(s *vt.Sink, class, h string, vecs []c09vec) error {
	var kind *c09rtKind
	for _, k := range c09rtKinds {
		if k.h == h {
			kind = k
		}
	}
	if kind == nil {
		return fmt.Errorf("c09: unknown header %q", h)
	}
	desc, _ := json.Marshal(c09replay{Kind: "rt", H: h, Vecs: vecs})
	tr := s.Begin(class, string(desc))
	defer tr.End()
	// a parsed value is the caller's: the values obtained for the previous vectors are looked
	// at again after each later parse and must still equal what was marshalled
	type kept struct {
		val, orig any
		c         c09case
	}
	var earlier []kept
	for _, v := range vecs {
		c, err := kind.build(v)
		if err != nil {
			return err
		}
		eq, pure, det, panicked, why, val := c09rtOneVal(c)
		for _, k := range earlier {
			if !reflect.DeepEqual(k.c.normed(k.val), k.orig) {
				eq, why = false, "earlier_value_changed"
			}
		}
		if eq && val != nil {
			if len(earlier) == 4 {
				earlier = earlier[1:]
			}
			earlier = append(earlier, kept{val, c.orig, c})
		}
		tr.Emit("rt", "h", h, "eq", eq, "pure", pure, "det", det, "panic", panicked, "why", why,
			"v", fmt.Sprintf("p=%d,c=%s,v=%d", v.P, v.C, v.V))
	}
	tr.Emit("end")
	return nil
}
