package main

// C19 driver: media and control are bound to the negotiated peer.
//
// Inputs are the cases enumerated by TLC from Binding.tla (one JSON object per line):
//   dgram     - a perfectly valid RTP / RTCP datagram is sent to the UDP port of a session
//               (side "server": a publishing session fed by a raw RTSP peer; side "client": a
//               real reading gortsplib.Client) from the negotiated peer, from another port of
//               the right address, from another address with the negotiated port number, or
//               from another address and port; recorded: did the packet callback run for THIS
//               packet, did the session's inbound statistics move;
//   keepalive - only datagrams from the given source are sent to a streaming UDP session of a
//               server with short timeouts: did the session expire;
//   steal     - a request carrying the session id arrives from another address ("ip") or, while
//               the session streams interleaved, from another connection of the same address
//               ("conn"): recorded: response status, is the victim session unchanged.
// The driver only observes; BindingTrace.tla judges.

import (
	"bufio"
	"encoding/binary"
	"encoding/json"
	"fmt"
	"math/rand"
	"net"
	"strconv"
	"strings"
	"sync"
	"sync/atomic"
	"time"

	"github.com/bluenviron/gortsplib/v5"
	"github.com/bluenviron/gortsplib/v5/pkg/base"
	"github.com/bluenviron/gortsplib/v5/pkg/conn"
	"github.com/bluenviron/gortsplib/v5/pkg/description"
	"github.com/bluenviron/gortsplib/v5/pkg/format"
	"github.com/bluenviron/gortsplib/v5/pkg/headers"
	"github.com/pion/rtcp"
	"github.com/pion/rtp"

	"verifharness/internal/bed"
	"verifharness/internal/vt"
)

func init() { drivers["c19"] = driveC19 }

type c19case struct {
	Kind      string `json:"kind"`
	Side      string `json:"side"`
	Src       string `json:"src"`
	AnyPort   bool   `json:"anyPort"`
	FirstSeen bool   `json:"firstSeen"`
	Wild      bool   `json:"wild"`  // dgram/server: the server listens on wildcard (dual-stack) sockets
	Gap       bool   `json:"gap"`   // dgram/server: the negotiated client ports are P and P+5
	Early     bool   `json:"early"` // steal/conn: the intruder connection used the session id (OPTIONS) before streaming began
	Proto     string `json:"proto"`
	How       string `json:"how"`
	State     string `json:"state"`
	Method    string `json:"method"`
}

const (
	c19ipPeer  = "127.0.0.1" // the address of the legitimate peer (and of the server)
	c19ipOther = "127.0.0.2" // another local source address (lo has 127.0.0.1/8)
	c19ipEth   = "192.0.2.2" // eth0, used as one more foreign source when it can be bound
	c19window  = 150 * time.Millisecond
	c19rtcpTag = 0xC1900000
)

type c19job struct {
	c   c19case
	js  string
	idx int
}

func driveC19(a *args, s *vt.Sink) error {
	var lines []string
	if a.replay != "" {
		lines = []string{a.replay}
	} else {
		if a.in == "" {
			return fmt.Errorf("c19 needs -in (behaviours of Binding.tla) or -replay")
		}
		var err error
		lines, err = readLines(a.in)
		if err != nil {
			return err
		}
	}
	if a.replay == "" || strings.Contains(a.replay, `"srcpermedia"`) {
		// (not one of the model's cases: sources that differ from media to media)
		if err := c19srcPerMedia(s); err != nil {
			return err
		}
		if a.replay != "" {
			return nil
		}
	}
	var keep, rest []c19job
	for i, l := range lines {
		var c c19case
		if err := json.Unmarshal([]byte(l), &c); err != nil {
			return fmt.Errorf("c19: input line %d: %w", i+1, err)
		}
		j := c19job{c: c, js: l, idx: i}
		switch c.Kind {
		case "keepalive":
			keep = append(keep, j)
		case "dgram", "steal":
			rest = append(rest, j)
		default:
			return fmt.Errorf("c19: input line %d: unknown kind %q", i+1, c.Kind)
		}
	}
	// "ignored" observations are meaningful only if datagrams from the foreign addresses do
	// reach a socket of 127.0.0.1 with their source address intact
	if err := c19probe(c19ipOther); err != nil {
		return fmt.Errorf("c19: %s cannot be used as a foreign source address: %w", c19ipOther, err)
	}
	if err := c19probe(c19ipEth); err != nil {
		fmt.Printf("DRIVER-NOTE c19 %s not usable as a source (%v): class \"both\" uses %s only\n", c19ipEth, err, c19ipOther)
		c19ethOK.Store(false)
	} else {
		c19ethOK.Store(true)
	}
	rng := rand.New(rand.NewSource(a.seed))
	if a.tier != "thorough" && a.replay == "" && len(keep) > 4 {
		// quick tier: a seeded sample of the (slow) keepalive cases: one with the real peer
		// (the session must survive), three with foreign sources
		var peers, others []int
		pick := map[int]bool{}
		for i, j := range keep {
			if j.c.Side == "client" { // four cases, all kept
				pick[i] = true
				continue
			}
			if j.c.Src == "peer" {
				peers = append(peers, i)
			} else {
				others = append(others, i)
			}
		}
		if len(peers) > 0 {
			pick[peers[rng.Intn(len(peers))]] = true
		}
		for k, p := range rng.Perm(len(others)) {
			if k >= 3 {
				break
			}
			pick[others[p]] = true
		}
		var k2 []c19job
		for i := range keep {
			if pick[i] {
				k2 = append(k2, keep[i])
			}
		}
		keep = k2
	}
	if a.n > 0 && len(rest) > a.n {
		rest = rest[:a.n]
	}

	var wg sync.WaitGroup
	errs := make(chan error, len(keep)+len(rest)+1)
	run := func(j c19job) {
		seed := a.seed*1000003 + int64(j.idx)
		var err error
		switch {
		case j.c.Kind == "keepalive" && j.c.Side == "client":
			err = c19keepaliveClient(&j.c, j.js, s, seed)
		case j.c.Kind == "keepalive":
			err = c19keepalive(&j.c, j.js, s, seed)
		case j.c.Kind == "steal":
			err = c19steal(&j.c, j.js, s, seed)
		case j.c.Side == "server":
			err = c19dgramServer(&j.c, j.js, s, seed)
		default:
			err = c19dgramClient(&j.c, j.js, s, seed)
		}
		if err != nil {
			errs <- err
		}
	}
	// the keepalive cases mostly sleep: all of them in parallel, each with its own bed
	for _, j := range keep {
		wg.Add(1)
		go func(j c19job) {
			defer wg.Done()
			run(j)
		}(j)
	}
	workers := 4
	if a.replay != "" {
		workers = 1
	}
	ch := make(chan c19job)
	for w := 0; w < workers; w++ {
		wg.Add(1)
		go func() {
			defer wg.Done()
			for j := range ch {
				run(j)
			}
		}()
	}
	for _, j := range rest {
		ch <- j
	}
	close(ch)
	wg.Wait()
	select {
	case err := <-errs:
		return err
	default:
	}
	return nil
}

// ---- sockets ------------------------------------------------------------------------

var c19ethOK atomic.Bool

// c19probe checks that a datagram sent from ip reaches a socket bound to 127.0.0.1 and is
// seen there as coming from ip.
func c19probe(ip string) error {
	dst, err := c19listen(c19ipPeer, 0)
	if err != nil {
		return err
	}
	defer dst.Close()
	src, err := c19listen(ip, 0)
	if err != nil {
		return err
	}
	defer src.Close()
	if err = c19send(src, []byte("c19probe"), c19ipPeer, c19port(dst)); err != nil {
		return err
	}
	dst.SetReadDeadline(time.Now().Add(500 * time.Millisecond))
	buf := make([]byte, 64)
	n, from, err := dst.ReadFromUDP(buf)
	if err != nil {
		return err
	}
	if string(buf[:n]) != "c19probe" || !from.IP.Equal(net.ParseIP(ip)) || from.Port != c19port(src) {
		return fmt.Errorf("probe arrived as %q from %v", buf[:n], from)
	}
	return nil
}

func c19listen(ip string, port int) (*net.UDPConn, error) {
	return net.ListenUDP("udp4", &net.UDPAddr{IP: net.ParseIP(ip), Port: port})
}

func c19port(c *net.UDPConn) int { return c.LocalAddr().(*net.UDPAddr).Port }

// c19pair binds two consecutive UDP ports (P even, P+1) on ip and keeps them bound.
func c19pair(ip string) (*net.UDPConn, *net.UDPConn, error) {
	var last error
	for i := 0; i < 300; i++ {
		c0, err := c19listen(ip, 0)
		if err != nil {
			return nil, nil, err
		}
		p := c19port(c0)
		if p%2 != 0 {
			c0.Close()
			p--
			c0, err = c19listen(ip, p)
			if err != nil {
				last = err
				continue
			}
		}
		c1, err := c19listen(ip, p+1)
		if err != nil {
			c0.Close()
			last = err
			continue
		}
		return c0, c1, nil
	}
	return nil, nil, fmt.Errorf("no free udp pair on %s: %v", ip, last)
}

// c19other binds a socket on ip whose port differs from avoid.
func c19other(ip string, avoid int) (*net.UDPConn, error) {
	for i := 0; i < 20; i++ {
		c, err := c19listen(ip, 0)
		if err != nil {
			return nil, err
		}
		if c19port(c) != avoid {
			return c, nil
		}
		c.Close()
	}
	return nil, fmt.Errorf("no other port on %s", ip)
}

// c19sources binds the sockets of a foreign source class. port is the negotiated port number
// of the real peer. It returns the sockets and the class really obtained ("ip" degrades to
// "both" when the negotiated port number cannot be bound on the other address).
func c19sources(src string, port int) ([]*net.UDPConn, string, error) {
	switch src {
	case "port":
		c, err := c19other(c19ipPeer, port)
		if err != nil {
			return nil, src, err
		}
		return []*net.UDPConn{c}, src, nil
	case "ip":
		c, err := c19listen(c19ipOther, port)
		if err == nil {
			return []*net.UDPConn{c}, src, nil
		}
		fallthrough
	case "both":
		c, err := c19other(c19ipOther, port)
		if err != nil {
			return nil, "both", err
		}
		out := []*net.UDPConn{c}
		if c19ethOK.Load() {
			if e, err := c19other(c19ipEth, port); err == nil {
				out = append(out, e)
			}
		}
		return out, "both", nil
	}
	return nil, src, fmt.Errorf("unknown source class %q", src)
}

func c19closeAll(cs []*net.UDPConn) {
	for _, c := range cs {
		if c != nil {
			c.Close()
		}
	}
}

func c19send(c *net.UDPConn, buf []byte, ip string, port int) error {
	_, err := c.WriteToUDP(buf, &net.UDPAddr{IP: net.ParseIP(ip), Port: port})
	return err
}

// ---- identifiable packets ------------------------------------------------------------

// c19rtpPkt is a valid RTP packet whose payload carries id.
func c19rtpPkt(pt uint8, seq uint16, ssrc uint32, id int) *rtp.Packet {
	pl := make([]byte, 48)
	pl[0] = 0x41 // H264 non-IDR slice
	copy(pl[1:], "C19!")
	binary.BigEndian.PutUint32(pl[5:], uint32(id))
	for i := 9; i < len(pl); i++ {
		pl[i] = byte(i*7 + id)
	}
	return &rtp.Packet{
		Header: rtp.Header{
			Version:        2,
			PayloadType:    pt,
			SequenceNumber: seq,
			Timestamp:      90000 + uint32(id)*3000,
			SSRC:           ssrc,
		},
		Payload: pl,
	}
}

func c19rtpID(pl []byte) (int, bool) {
	if len(pl) < 9 || string(pl[1:5]) != "C19!" {
		return 0, false
	}
	return int(binary.BigEndian.Uint32(pl[5:])), true
}

// c19srPkt is a valid RTCP sender report carrying id in its packet count.
func c19srPkt(ssrc uint32, id int) *rtcp.SenderReport {
	return &rtcp.SenderReport{
		SSRC:        ssrc,
		NTPTime:     uint64(time.Now().Unix()+2208988800) << 32,
		RTPTime:     90000 + uint32(id)*3000,
		PacketCount: c19rtcpTag + uint32(id),
		OctetCount:  uint32(id) * 48,
	}
}

// c19rrPkt is a valid RTCP receiver report carrying id in its sender SSRC.
func c19rrPkt(id int) *rtcp.ReceiverReport {
	return &rtcp.ReceiverReport{SSRC: c19rtcpTag + uint32(id)}
}

func c19rtcpID(pkt rtcp.Packet) (int, bool) {
	switch x := pkt.(type) {
	case *rtcp.SenderReport:
		if x.PacketCount&0xFFF00000 == c19rtcpTag {
			return int(x.PacketCount & 0xFFFFF), true
		}
	case *rtcp.ReceiverReport:
		if x.SSRC&0xFFF00000 == c19rtcpTag {
			return int(x.SSRC & 0xFFFFF), true
		}
	}
	return 0, false
}

func c19marshal(tr *vt.Trace, m interface{ Marshal() ([]byte, error) }) []byte {
	buf, err := m.Marshal()
	if err != nil {
		tr.Emit("harness", "why", "marshal: "+err.Error())
		return nil
	}
	return buf
}

// c19seen records which identifiable packets reached the packet callbacks.
type c19seen struct {
	mu    sync.Mutex
	rtp   map[int]bool
	rtcp  map[int]bool
	alien int // callbacks for packets that are not ours
}

func (sn *c19seen) onRTP(_ *description.Media, _ format.Format, pkt *rtp.Packet) {
	sn.mu.Lock()
	defer sn.mu.Unlock()
	if id, ok := c19rtpID(pkt.Payload); ok {
		if sn.rtp == nil {
			sn.rtp = map[int]bool{}
		}
		sn.rtp[id] = true
	} else {
		sn.alien++
	}
}

func (sn *c19seen) onRTCP(_ *description.Media, pkt rtcp.Packet) {
	sn.mu.Lock()
	defer sn.mu.Unlock()
	if id, ok := c19rtcpID(pkt); ok {
		if sn.rtcp == nil {
			sn.rtcp = map[int]bool{}
		}
		sn.rtcp[id] = true
	} else {
		sn.alien++
	}
}

func (sn *c19seen) has(proto string, ids ...int) bool {
	sn.mu.Lock()
	defer sn.mu.Unlock()
	m := sn.rtp
	if proto == "rtcp" {
		m = sn.rtcp
	}
	for _, id := range ids {
		if m[id] {
			return true
		}
	}
	return false
}

type c19cnt [6]uint64

func c19snap(st *gortsplib.SessionStats) c19cnt {
	return c19cnt{st.InboundBytes, st.InboundRTPPackets, st.InboundRTPPacketsLost, st.InboundRTPPacketsInError,
		st.InboundRTCPPackets, st.InboundRTCPPacketsInError}
}

func c19poll(d time.Duration, f func() bool) bool {
	deadline := time.Now().Add(d)
	for {
		if f() {
			return true
		}
		if time.Now().After(deadline) {
			return false
		}
		time.Sleep(time.Millisecond)
	}
}

// ---- raw RTSP peers ------------------------------------------------------------------

const c19sdp = "v=0\r\no=- 0 0 IN IP4 127.0.0.1\r\ns=Stream\r\nc=IN IP4 0.0.0.0\r\nt=0 0\r\n" +
	"m=video 0 RTP/AVP 96\r\na=control:trackID=0\r\na=rtpmap:96 H264/90000\r\na=fmtp:96 packetization-mode=1\r\n" +
	"m=audio 0 RTP/AVP 97\r\na=control:trackID=1\r\na=rtpmap:97 opus/48000/2\r\na=fmtp:97 sprop-stereo=1\r\n"

const c19pt0 = 96 // payload type of media 0, both of c19sdp and of the bed's served stream

// c19dial connects to the bed from the given local address.
func c19dial(bd *bed.Bed, localIP string) (*bed.Peer, error) {
	d := net.Dialer{LocalAddr: &net.TCPAddr{IP: net.ParseIP(localIP)}, Timeout: 3 * time.Second}
	network := "tcp4"
	if strings.Contains(bd.IP, ":") {
		network = "tcp6"
	}
	n, err := d.Dial(network, net.JoinHostPort(bd.IP, strconv.Itoa(bd.Port)))
	if err != nil {
		return nil, err
	}
	return &bed.Peer{N: n, C: conn.NewConn(bufio.NewReader(n), n), Timeout: 3 * time.Second}, nil
}

// c19vic is the legitimate peer: a raw RTSP conversation that brought a session to a state.
type c19vic struct {
	peer  *bed.Peer
	sid   string
	url   string
	socks []*net.UDPConn // rtp0, rtcp0, rtp1, rtcp1 (UDP transports)
	gap   bool           // UDP: the RTCP socket of a pair is bound to the RTP port + 5
}

func (v *c19vic) close() {
	if v.peer != nil {
		v.peer.Close()
	}
	c19closeAll(v.socks)
}

func (v *c19vic) do(req *base.Request) error {
	if req.Header == nil {
		req.Header = base.Header{}
	}
	if v.sid != "" {
		req.Header["Session"] = base.HeaderValue{v.sid}
	}
	r := v.peer.Do(req)
	if r.Res == nil {
		return fmt.Errorf("%s: no response (closed=%v timeout=%v)", req.Method, r.Closed, r.Timeout)
	}
	if sv, ok := r.Res.Header["Session"]; ok {
		var sh headers.Session
		if sh.Unmarshal(sv) == nil {
			v.sid = sh.Session
		}
	}
	if r.Res.StatusCode != base.StatusOK {
		return fmt.Errorf("%s: status %d", req.Method, r.Res.StatusCode)
	}
	return nil
}

func c19transport(proto string, track int, record bool, rtpPort int, rtcpPorts ...int) base.HeaderValue {
	th := headers.Transport{}
	d := headers.TransportDeliveryUnicast
	th.Delivery = &d
	if proto == "udp" {
		th.Protocol = headers.TransportProtocolUDP
		th.ClientPorts = &[2]int{rtpPort, rtpPort + 1}
		if len(rtcpPorts) == 1 {
			th.ClientPorts[1] = rtcpPorts[0]
		}
	} else {
		th.Protocol = headers.TransportProtocolTCP
		th.InterleavedIDs = &[2]int{track * 2, track*2 + 1}
	}
	m := headers.TransportModePlay
	if record {
		m = headers.TransportModeRecord
	}
	th.Mode = &m
	return th.Marshal()
}

func (v *c19vic) setup(proto string, track int, record bool) error {
	port := 0
	var rtcpPorts []int
	if proto == "udp" {
		c0, c1, err := c19pair(c19ipPeer)
		if err != nil {
			return err
		}
		port = c19port(c0)
		if v.gap {
			// RTCP from P+5; P+1 stays free for whoever wants to send from it
			c1.Close()
			if c1, err = c19listen(c19ipPeer, port+5); err != nil {
				c0.Close()
				return err
			}
		}
		v.socks = append(v.socks, c0, c1)
		rtcpPorts = []int{c19port(c1)}
	}
	return v.do(&base.Request{
		Method: base.Setup,
		URL:    bed.MustURL(v.url + "/trackID=" + strconv.Itoa(track)),
		Header: base.Header{"Transport": c19transport(proto, track, record, port, rtcpPorts...)},
	})
}

// c19victim connects from 127.0.0.1 and brings a session to state over proto ("udp" | "tcp").
// c19victimHook, when set, runs right before the victim starts streaming (PLAY / RECORD).
func c19victim(bd *bed.Bed, state, proto string, hooks ...func(v *c19vic)) (*c19vic, error) {
	return c19victimGap(bd, state, proto, false, hooks...)
}

// c19victimGap: as c19victim; gap = the client ports of every UDP SETUP are P and P+5.
func c19victimGap(bd *bed.Bed, state, proto string, gap bool, hooks ...func(v *c19vic)) (*c19vic, error) {
	before := func(v *c19vic) {
		for _, h := range hooks {
			h(v)
		}
	}
	peerIP := c19ipPeer
	if strings.Contains(bd.IP, ":") {
		peerIP = bd.IP // IPv6 bed: the legitimate peer is the loopback address itself
	}
	peer, err := c19dial(bd, peerIP)
	if err != nil {
		return nil, err
	}
	v := &c19vic{peer: peer, gap: gap}
	switch state {
	case "prePlay", "play":
		v.url = bd.URL("stream")
		if err = v.setup(proto, 0, false); err == nil && state == "play" {
			before(v)
			err = v.do(&base.Request{Method: base.Play, URL: bed.MustURL(v.url)})
		}
	case "preRecord", "record":
		v.url = bd.URL("pub")
		err = v.do(&base.Request{Method: base.Announce, URL: bed.MustURL(v.url),
			Header: base.Header{"Content-Type": base.HeaderValue{"application/sdp"}}, Body: []byte(c19sdp)})
		if err == nil {
			err = v.setup(proto, 0, true)
		}
		// preRecord keeps track 1 free so that a SETUP of it would be a valid request
		if err == nil && state == "record" {
			if err = v.setup(proto, 1, true); err == nil {
				before(v)
				err = v.do(&base.Request{Method: base.Record, URL: bed.MustURL(v.url)})
			}
		}
	default:
		err = fmt.Errorf("unknown state %q", state)
	}
	if err != nil {
		v.close()
		return nil, err
	}
	if v.sid == "" {
		v.close()
		return nil, fmt.Errorf("no session id")
	}
	return v, nil
}

func c19stateName(state string) string {
	switch state {
	case "prePlay":
		return gortsplib.ServerSessionStatePrePlay.String()
	case "play":
		return gortsplib.ServerSessionStatePlay.String()
	case "preRecord":
		return gortsplib.ServerSessionStatePreRecord.String()
	case "record":
		return gortsplib.ServerSessionStateRecord.String()
	}
	return "?"
}

// c19begin opens the trace of a case; fail reports a harness-side failure as an event that
// no Level A action accepts (the trace is rejected and must be looked at).
func c19begin(s *vt.Sink, class, js string) (*vt.Trace, func(string, error)) {
	tr := s.Begin(class, js)
	fail := func(what string, err error) {
		tr.Emit("harness", "what", what, "why", fmt.Sprint(err))
		tr.Emit("end")
	}
	return tr, fail
}

// ---- DGRAM, server side --------------------------------------------------------------

func c19dgramServer(c *c19case, js string, s *vt.Sink, seed int64) error {
	tr, fail := c19begin(s, "c19/dgram", js)
	defer tr.End()
	defer func() {
		if p := recover(); p != nil {
			tr.Emit("panic", "why", fmt.Sprint(p))
		}
	}()
	rng := rand.New(rand.NewSource(seed))
	bd, err := bed.Start(bed.ServerCfg{UDP: true, Wildcard: c.Wild})
	if err != nil {
		return err
	}
	defer bd.Close()
	seen := &c19seen{}
	bd.OnRecordHook = func(ctx *gortsplib.ServerHandlerOnRecordCtx) {
		ctx.Session.OnPacketRTPAny(seen.onRTP)
		ctx.Session.OnPacketRTCPAny(seen.onRTCP)
	}
	var vhooks []func(v *c19vic)
	v, err := c19victimGap(bd, "record", "udp", c.Gap, vhooks...)
	if err != nil {
		fail("victim", err)
		return nil
	}
	defer v.close()
	sess := bd.LastSession()
	if sess == nil || sess.State() != gortsplib.ServerSessionStateRecord {
		fail("victim", fmt.Errorf("no recording session"))
		return nil
	}

	// the negotiated peer of media 0 and the server's port, for this protocol
	peerSock, dstPort := v.socks[0], bd.UDPPort
	if c.Proto == "rtcp" {
		peerSock, dstPort = v.socks[1], bd.UDPPort+1
	}
	const ssrc = 0x19C0FFEE
	seq := uint16(rng.Intn(60000))
	id := 0
	mk := func() (int, []byte) {
		id++
		seq++
		if c.Proto == "rtcp" {
			return id, c19marshal(tr, c19srPkt(ssrc, id))
		}
		return id, c19marshal(tr, c19rtpPkt(c19pt0, seq, ssrc, id))
	}

	if c.FirstSeen {
		fid, buf := mk()
		if err := c19send(peerSock, buf, bd.IP, dstPort); err != nil {
			fail("first", err)
			return nil
		}
		if !c19poll(time.Second, func() bool { return seen.has(c.Proto, fid) }) {
			fail("first", fmt.Errorf("the packet of the real peer was not delivered within 1s"))
			return nil
		}
	}

	var socks []*net.UDPConn
	actual := c.Src
	if c.Src == "peer" {
		socks = []*net.UDPConn{peerSock}
	} else if c.Gap && c.Src == "port" && c.Proto == "rtcp" {
		// the port next to the RTP one: where RTCP would come from had the pair been consecutive
		sk, lerr := c19listen(c19ipPeer, c19port(v.socks[0])+1)
		if lerr != nil {
			fail("sources", lerr)
			return nil
		}
		socks = []*net.UDPConn{sk}
		defer c19closeAll(socks)
	} else {
		socks, actual, err = c19sources(c.Src, c19port(peerSock))
		if err != nil {
			fail("sources", err)
			return nil
		}
		defer c19closeAll(socks)
	}

	before := c19snap(sess.Stats())
	var ids []int
	// every source sends a short run of datagrams back to back (what a source is allowed to do
	// must not depend on who sent the datagram before)
	for _, sk := range socks {
		for k := 0; k < 3; k++ {
			tid, buf := mk()
			ids = append(ids, tid)
			if err := c19send(sk, buf, bd.IP, dstPort); err != nil {
				fail("send", err)
				return nil
			}
		}
	}
	delivered, stats := false, false
	c19poll(c19window, func() bool {
		delivered = delivered || seen.has(c.Proto, ids...)
		stats = stats || c19snap(sess.Stats()) != before
		return delivered && stats
	})
	tr.Emit("dgram", "side", c.Side, "src", actual, "anyPort", c.AnyPort, "firstSeen", c.FirstSeen,
		"delivered", delivered, "stats", stats, "proto", c.Proto, "asked", c.Src, "nsrc", len(socks))
	tr.Emit("end")
	return nil
}

// ---- per-media sources, client side -----------------------------------------------------

// c19srcPerMedia: a scripted server announces a DIFFERENT source= for each of its two medias
// (127.0.0.1 for the first, 127.0.1.2 for the second, same server ports). A real client sets
// both up over UDP and plays. Valid RTP for the second media then arrives from the address
// negotiated for the FIRST media (must be ignored) and from its own (must be delivered).
// Events: two dgram events (side client), as for the other datagram cases.
func c19srcPerMedia(s *vt.Sink) error {
	tr, fail := c19begin(s, "c19/dgram", `{"kind":"srcpermedia"}`)
	defer tr.End()
	defer func() {
		if p := recover(); p != nil {
			tr.Emit("panic", "why", fmt.Sprint(p))
		}
	}()
	b := &c12beh{Cfg: c12cfg{Mode: "play", Proto: "udp"}, Steps: c12steps("play")}
	srv, err := c12newServer(b)
	if err != nil {
		return err
	}
	defer srv.close()
	srv.silent = true
	const other = "127.0.1.2"
	srv.sourceOf = func(track string) string {
		if track == "1" {
			return other
		}
		return "127.0.0.1"
	}
	// the second media's own source: the same port number on the other address
	sport := srv.udp[0].LocalAddr().(*net.UDPAddr).Port
	own, err := c19listen(other, sport)
	if err != nil {
		fail("own-source", err)
		return nil
	}
	defer own.Close()

	var cports [][2]int
	var mu sync.Mutex
	proto := gortsplib.ProtocolUDP
	c := &gortsplib.Client{Protocol: &proto, ReadTimeout: 5 * time.Second, WriteTimeout: 5 * time.Second,
		OnRequest: func(req *base.Request) {
			if req.Method == base.Setup {
				var th headers.Transport
				if th.Unmarshal(req.Header["Transport"]) == nil && th.ClientPorts != nil {
					mu.Lock()
					cports = append(cports, *th.ClientPorts)
					mu.Unlock()
				}
			}
		}}
	c.OnPacketsLost = func(uint64) {}
	c.OnDecodeError = func(error) {}
	u, err := base.ParseURL("rtsp://" + srv.addr + "/stream")
	if err != nil {
		return err
	}
	c.Scheme, c.Host = u.Scheme, u.Host
	if err = c.Start(); err != nil {
		return err
	}
	defer c.Close()
	desc, _, err := c.Describe(u)
	if err != nil {
		fail("describe", err)
		return nil
	}
	if err = c.SetupAll(desc.BaseURL, desc.Medias); err != nil {
		fail("setup", err)
		return nil
	}
	seen := &c19seen{}
	c.OnPacketRTPAny(seen.onRTP)
	if _, err = c.Play(nil); err != nil {
		fail("play", err)
		return nil
	}
	mu.Lock()
	ports := append([][2]int(nil), cports...)
	mu.Unlock()
	if len(ports) < 2 {
		fail("reader", fmt.Errorf("%d client_port pairs seen in the SETUP requests", len(ports)))
		return nil
	}
	dst := ports[1][0] // RTP port of the second media
	send := func(sock *net.UDPConn, id int) error {
		return c19send(sock, c19marshal(tr, c19rtpPkt(97, uint16(500+id), 0x19AB0000+uint32(id), id)), "127.0.0.1", dst)
	}
	// from the first media's address (the scripted server's own socket): not negotiated for this media
	if err := send(srv.udp[0], 1); err != nil {
		fail("send", err)
		return nil
	}
	delivered := false
	c19poll(c19window, func() bool { delivered = seen.has("rtp", 1); return delivered })
	tr.Emit("dgram", "side", "client", "src", "ip", "anyPort", false, "firstSeen", false,
		"delivered", delivered, "stats", delivered, "proto", "rtp", "asked", "ip", "nsrc", 1)
	// from its own negotiated address
	if err := send(own, 2); err != nil {
		fail("send", err)
		return nil
	}
	delivered = false
	c19poll(time.Second, func() bool { delivered = seen.has("rtp", 2); return delivered })
	tr.Emit("dgram", "side", "client", "src", "peer", "anyPort", false, "firstSeen", false,
		"delivered", delivered, "stats", delivered, "proto", "rtp", "asked", "peer", "nsrc", 1)
	tr.Emit("end")
	return nil
}

// ---- DGRAM, client side --------------------------------------------------------------

func c19dgramClient(c *c19case, js string, s *vt.Sink, seed int64) error {
	tr, fail := c19begin(s, "c19/dgram", js)
	defer tr.End()
	defer func() {
		if p := recover(); p != nil {
			tr.Emit("panic", "why", fmt.Sprint(p))
		}
	}()
	rng := rand.New(rand.NewSource(seed))
	bd, err := bed.Start(bed.ServerCfg{UDP: true})
	if err != nil {
		return err
	}
	defer bd.Close()

	var pmu sync.Mutex
	var cports [][2]int // client_port of the SETUP requests, in order
	seen := &c19seen{}
	rd, err := bd.NewReader(bed.ReaderCfg{Proto: "udp", Timeout: 5 * time.Second, Extra: func(cl *gortsplib.Client) {
		cl.AnyPortEnable = c.AnyPort
		cl.OnRequest = func(req *base.Request) {
			if req.Method != base.Setup {
				return
			}
			var th headers.Transport
			if th.Unmarshal(req.Header["Transport"]) == nil && th.ClientPorts != nil {
				pmu.Lock()
				cports = append(cports, *th.ClientPorts)
				pmu.Unlock()
			}
		}
	}}, "stream", seen.onRTP)
	if err != nil {
		fail("reader", err)
		return nil
	}
	defer rd.Close()
	rd.C.OnPacketRTCPAny(seen.onRTCP)
	if _, err := rd.C.Play(nil); err != nil {
		fail("play", err)
		return nil
	}
	pmu.Lock()
	if len(cports) == 0 {
		pmu.Unlock()
		fail("reader", fmt.Errorf("no client_port seen in the SETUP requests"))
		return nil
	}
	cp := cports[0]
	pmu.Unlock()

	// the negotiated peer of media 0 (the server's socket) and the client's port, for this protocol
	srvPort, dstPort := bd.UDPPort, cp[0]
	if c.Proto == "rtcp" {
		srvPort, dstPort = bd.UDPPort+1, cp[1]
	}
	ssrc := rd.AnnouncedSSRC(0)
	if ssrc == 0 {
		ssrc = 0x1234ABCD
	}
	medi := bd.Desc.Medias[0]
	seq := uint16(rng.Intn(60000))
	id := 0
	// through writes the next packet through the server stream: it leaves from the negotiated peer
	through := func() (int, error) {
		id++
		seq++
		if c.Proto == "rtcp" {
			return id, bd.Stream.WritePacketRTCP(medi, c19srPkt(ssrc, id))
		}
		return id, bd.Stream.WritePacketRTP(medi, c19rtpPkt(c19pt0, seq, ssrc, id))
	}
	forged := func() (int, []byte) {
		id++
		seq++
		if c.Proto == "rtcp" {
			return id, c19marshal(tr, c19srPkt(ssrc, id))
		}
		return id, c19marshal(tr, c19rtpPkt(c19pt0, seq, ssrc, id))
	}

	if c.FirstSeen {
		fid, err := through()
		if err != nil {
			fail("first", err)
			return nil
		}
		if !c19poll(time.Second, func() bool { return seen.has(c.Proto, fid) }) {
			fail("first", fmt.Errorf("the packet of the real peer was not delivered within 1s"))
			return nil
		}
	}

	var socks []*net.UDPConn
	actual := c.Src
	if c.Src != "peer" {
		socks, actual, err = c19sources(c.Src, srvPort)
		if err != nil {
			fail("sources", err)
			return nil
		}
		defer c19closeAll(socks)
	}

	before := c19snap(&rd.C.Stats().Session)
	var ids []int
	if c.Src == "peer" {
		tid, err := through()
		if err != nil {
			fail("send", err)
			return nil
		}
		ids = append(ids, tid)
	}
	for _, sk := range socks {
		for k := 0; k < 3; k++ { // a short run back to back, as on the server side
			tid, buf := forged()
			ids = append(ids, tid)
			if err := c19send(sk, buf, c19ipPeer, dstPort); err != nil {
				fail("send", err)
				return nil
			}
		}
	}
	delivered, stats := false, false
	c19poll(c19window, func() bool {
		delivered = delivered || seen.has(c.Proto, ids...)
		stats = stats || c19snap(&rd.C.Stats().Session) != before
		return delivered && stats
	})
	tr.Emit("dgram", "side", c.Side, "src", actual, "anyPort", c.AnyPort, "firstSeen", c.FirstSeen,
		"delivered", delivered, "stats", stats, "proto", c.Proto, "asked", c.Src, "nsrc", len(ids))
	tr.Emit("end")
	return nil
}

// ---- KEEPALIVE -----------------------------------------------------------------------

func c19keepalive(c *c19case, js string, s *vt.Sink, seed int64) error {
	tr, fail := c19begin(s, "c19/keepalive", js)
	defer tr.End()
	defer func() {
		if p := recover(); p != nil {
			tr.Emit("panic", "why", fmt.Sprint(p))
		}
	}()
	rng := rand.New(rand.NewSource(seed))
	bd, err := bed.Start(bed.ServerCfg{UDP: true, ReadTimeout: 2 * time.Second, IdleTimeout: 2 * time.Second,
		CheckPeriod: 200 * time.Millisecond})
	if err != nil {
		return err
	}
	defer bd.Close()
	var closed atomic.Bool
	bd.OnSessionCloseHook = func(_ *gortsplib.ServerSession, _ error) { closed.Store(true) }
	if c.State != "play" && c.State != "record" {
		fail("victim", fmt.Errorf("keepalive needs a streaming state, got %q", c.State))
		return nil
	}
	v, err := c19victim(bd, c.State, "udp")
	if err != nil {
		fail("victim", err)
		return nil
	}
	defer v.close()
	sess := bd.LastSession()
	if sess == nil || sess.State().String() != c19stateName(c.State) {
		fail("victim", fmt.Errorf("session not in state %s", c.State))
		return nil
	}

	// the datagrams leave the TCP connection of the peer open and silent
	var rtpSocks, rtcpSocks []*net.UDPConn
	actual := c.Src
	if c.Src == "peer" {
		rtpSocks, rtcpSocks = []*net.UDPConn{v.socks[0]}, []*net.UDPConn{v.socks[1]}
	} else {
		var a1, a2 string
		rtpSocks, a1, err = c19sources(c.Src, c19port(v.socks[0]))
		if err != nil {
			fail("sources", err)
			return nil
		}
		defer c19closeAll(rtpSocks)
		rtcpSocks, a2, err = c19sources(c.Src, c19port(v.socks[1]))
		if err != nil {
			fail("sources", err)
			return nil
		}
		defer c19closeAll(rtcpSocks)
		if a1 != c.Src || a2 != c.Src {
			actual = "both"
		}
	}

	const ssrc = 0x19C0FFEE
	seq := uint16(rng.Intn(60000))
	id := 0
	start := time.Now()
	expired := false
	afterMs := 0
	lastRound, maxGap := start, time.Duration(0) // the harness measures its own punctuality
	for time.Since(start) < 3500*time.Millisecond {
		if closed.Load() {
			expired = true
			afterMs = int(time.Since(start) / time.Millisecond)
			break
		}
		if g := time.Since(lastRound); g > maxGap {
			maxGap = g
		}
		lastRound = time.Now()
		for _, sk := range rtpSocks {
			id++
			seq++
			if buf := c19marshal(tr, c19rtpPkt(c19pt0, seq, ssrc, id)); buf != nil {
				c19send(sk, buf, bd.IP, bd.UDPPort) //nolint:errcheck
			}
		}
		for _, sk := range rtcpSocks {
			id++
			var buf []byte
			if c.State == "record" {
				buf = c19marshal(tr, c19srPkt(ssrc, id))
			} else {
				buf = c19marshal(tr, c19rrPkt(id))
			}
			if buf != nil {
				c19send(sk, buf, bd.IP, bd.UDPPort+1) //nolint:errcheck
			}
		}
		// sleep to the next 200 ms tick, watching for the close notification
		next := time.Now().Add(200 * time.Millisecond)
		for time.Now().Before(next) && !closed.Load() {
			time.Sleep(5 * time.Millisecond)
		}
	}
	if !expired && closed.Load() && time.Since(start) < 3500*time.Millisecond {
		expired = true
		afterMs = int(time.Since(start) / time.Millisecond)
	}
	// (the instant of the expiry depends on the scheduler: it is printed, not recorded)
	if expired {
		fmt.Printf("DRIVER-NOTE c19 keepalive %s/%s expired after %d ms\n", c.State, c.Src, afterMs)
	}
	if g := time.Since(lastRound); g > maxGap {
		maxGap = g
	}
	if c.Src == "peer" && expired && maxGap > 700*time.Millisecond {
		// the real peer (this harness) was late itself: an expiry says nothing about the library
		tr.Emit("keepalive_void", "src", actual, "maxGapMs", int(maxGap/time.Millisecond))
	} else {
		tr.Emit("keepalive", "src", actual, "expired", expired, "state", c.State, "asked", c.Src)
	}
	tr.Emit("end")
	return nil
}

// c19keepaliveClient: a real client plays over UDP; after a first packet of the real peer only
// datagrams from the given source reach its RTP / RTCP ports: does its UDP timeout fire?
func c19keepaliveClient(c *c19case, js string, s *vt.Sink, seed int64) error {
	tr, fail := c19begin(s, "c19/keepalive", js)
	defer tr.End()
	defer func() {
		if p := recover(); p != nil {
			tr.Emit("panic", "why", fmt.Sprint(p))
		}
	}()
	rng := rand.New(rand.NewSource(seed))
	bd, err := bed.Start(bed.ServerCfg{UDP: true})
	if err != nil {
		return err
	}
	defer bd.Close()

	var pmu sync.Mutex
	var cports [][2]int
	seen := &c19seen{}
	rd, err := bd.NewReader(bed.ReaderCfg{Proto: "udp", Timeout: 2 * time.Second, Extra: func(cl *gortsplib.Client) {
		cl.InitialUDPReadTimeout = time.Second
		gortsplib.VerifSetClientKnobs(cl, nil, 0, 0, 200*time.Millisecond)
		cl.OnRequest = func(req *base.Request) {
			if req.Method != base.Setup {
				return
			}
			var th headers.Transport
			if th.Unmarshal(req.Header["Transport"]) == nil && th.ClientPorts != nil {
				pmu.Lock()
				cports = append(cports, *th.ClientPorts)
				pmu.Unlock()
			}
		}
	}}, "stream", seen.onRTP)
	if err != nil {
		fail("reader", err)
		return nil
	}
	defer rd.Close()
	if _, err := rd.C.Play(nil); err != nil {
		fail("play", err)
		return nil
	}
	var dead atomic.Bool
	go func() {
		rd.C.Wait() //nolint:errcheck
		dead.Store(true)
	}()
	pmu.Lock()
	ports := append([][2]int(nil), cports...)
	pmu.Unlock()
	if len(ports) == 0 {
		fail("reader", fmt.Errorf("no client_port seen in the SETUP requests"))
		return nil
	}
	ssrc := rd.AnnouncedSSRC(0)
	if ssrc == 0 {
		ssrc = 0x1234ABCD
	}
	medi := bd.Desc.Medias[0]
	seq := uint16(rng.Intn(60000))
	id := 1
	if err := bd.Stream.WritePacketRTP(medi, c19rtpPkt(c19pt0, seq, ssrc, id)); err != nil {
		fail("first", err)
		return nil
	}
	if !c19poll(time.Second, func() bool { return seen.has("rtp", 1) }) {
		fail("first", fmt.Errorf("the packet of the real peer was not delivered within 1s"))
		return nil
	}

	// forged datagrams go to the RTP and RTCP ports of every media the client set up
	type dst struct {
		sk   *net.UDPConn
		port int
		rtcp bool
	}
	var dsts []dst
	actual := c.Src
	if c.Src != "peer" {
		for k := 0; k < 2; k++ {
			socks, a, err := c19sources(c.Src, bd.UDPPort+k)
			if err != nil {
				fail("sources", err)
				return nil
			}
			defer c19closeAll(socks)
			if a != c.Src {
				actual = "both"
			}
			for _, cp := range ports {
				for _, sk := range socks {
					dsts = append(dsts, dst{sk, cp[k], k == 1})
				}
			}
		}
	}
	start := time.Now()
	expired, afterMs := false, 0
	// the harness measures its own punctuality: the real peer sends every 200 ms; a round that
	// starts more than 700 ms after the previous one means the machine stalled the harness
	lastRound, maxGap := start, time.Duration(0)
	for time.Since(start) < 5500*time.Millisecond {
		if dead.Load() {
			expired, afterMs = true, int(time.Since(start)/time.Millisecond)
			break
		}
		if g := time.Since(lastRound); g > maxGap {
			maxGap = g
		}
		lastRound = time.Now()
		if c.Src == "peer" {
			id++
			seq++
			bd.Stream.WritePacketRTP(medi, c19rtpPkt(c19pt0, seq, ssrc, id)) //nolint:errcheck
		}
		for _, d := range dsts {
			id++
			seq++
			var buf []byte
			if d.rtcp {
				buf = c19marshal(tr, c19srPkt(ssrc, id))
			} else {
				buf = c19marshal(tr, c19rtpPkt(c19pt0, seq, ssrc, id))
			}
			if buf != nil {
				c19send(d.sk, buf, c19ipPeer, d.port) //nolint:errcheck
			}
		}
		next := time.Now().Add(200 * time.Millisecond)
		for time.Now().Before(next) && !dead.Load() {
			time.Sleep(5 * time.Millisecond)
		}
	}
	if expired {
		fmt.Printf("DRIVER-NOTE c19 keepalive client/%s expired after %d ms\n", c.Src, afterMs)
	}
	if g := time.Since(lastRound); g > maxGap {
		maxGap = g
	}
	if c.Src == "peer" && expired && maxGap > 700*time.Millisecond {
		// the real peer (this harness) was late itself: an expiry says nothing about the library
		tr.Emit("keepalive_void", "src", actual, "maxGapMs", int(maxGap/time.Millisecond), "side", "client")
	} else {
		tr.Emit("keepalive", "src", actual, "expired", expired, "state", c.State, "asked", c.Src, "side", "client")
	}
	tr.Emit("end")
	return nil
}

// ---- STEAL ---------------------------------------------------------------------------

func c19steal(c *c19case, js string, s *vt.Sink, _ int64) error {
	tr, fail := c19begin(s, "c19/steal", js)
	defer tr.End()
	defer func() {
		if p := recover(); p != nil {
			tr.Emit("panic", "why", fmt.Sprint(p))
		}
	}()
	bcfg := bed.ServerCfg{UDP: true}
	other6 := ""
	if c.How == "ip6" {
		// two native IPv6 peers: the loopback address creates the session, another address of
		// this host (if it has one) presents the session id
		other6 = c19otherIPv6()
		if other6 == "" {
			fmt.Println("DRIVER-NOTE c19 no second IPv6 address on this host: ip6 cases skipped")
			tr.Emit("end")
			return nil
		}
		bcfg = bed.ServerCfg{IP: "::1"}
	}
	bd, err := bed.Start(bcfg)
	if err != nil {
		if c.How == "ip6" {
			fmt.Printf("DRIVER-NOTE c19 cannot listen on ::1 (%v): ip6 cases skipped\n", err)
			tr.Emit("end")
			return nil
		}
		return err
	}
	defer bd.Close()
	var cmu sync.Mutex
	closedSess := map[*gortsplib.ServerSession]bool{}
	bd.OnSessionCloseHook = func(ss *gortsplib.ServerSession, _ error) {
		cmu.Lock()
		closedSess[ss] = true
		cmu.Unlock()
	}

	// what reaches the session's packet callbacks (FRAME cases)
	seen := &c19seen{}
	bd.OnRecordHook = func(ctx *gortsplib.ServerHandlerOnRecordCtx) {
		ctx.Session.OnPacketRTPAny(seen.onRTP)
		ctx.Session.OnPacketRTCPAny(seen.onRTCP)
	}
	bd.OnPlayHook = func(ctx *gortsplib.ServerHandlerOnPlayCtx) {
		ctx.Session.OnPacketRTCPAny(seen.onRTCP)
	}
	proto, fromIP := "udp", c19ipOther
	switch c.How {
	case "ip":
	case "ip6":
		proto, fromIP = "tcp", other6
	case "conn":
		// the victim streams interleaved; the intruder is another connection of the same address
		proto, fromIP = "tcp", c19ipPeer
		if c.State != "play" && c.State != "record" {
			fail("victim", fmt.Errorf("how=conn needs a streaming state, got %q", c.State))
			return nil
		}
	default:
		fail("victim", fmt.Errorf("unknown how %q", c.How))
		return nil
	}
	// early: the other connection shows up with the session id (a harmless OPTIONS, which the
	// server answers) while the session is still being set up, and comes back once it streams
	var in *bed.Peer
	earlyStatus := 0
	v, err := c19victim(bd, c.State, proto, func(v *c19vic) {
		if !c.Early || c.How != "conn" {
			return
		}
		p, err := c19dial(bd, fromIP)
		if err != nil {
			return
		}
		in = p
		r := in.Do(&base.Request{Method: base.Options, URL: bed.MustURL(v.url),
			Header: base.Header{"Session": base.HeaderValue{v.sid}}})
		if r.Res != nil {
			earlyStatus = int(r.Res.StatusCode)
		}
	})
	if err != nil {
		if in != nil {
			in.Close()
		}
		fail("victim", err)
		return nil
	}
	defer v.close()
	sess := bd.LastSession()
	if sess == nil || sess.State().String() != c19stateName(c.State) {
		fail("victim", fmt.Errorf("session not in state %s", c.State))
		return nil
	}
	st0 := sess.State()
	opened0, _, _, _ := bd.Counters()

	if in == nil {
		in, err = c19dial(bd, fromIP)
		if err != nil {
			fail("intruder", err)
			return nil
		}
	}
	defer in.Close()
	record := c.State == "preRecord" || c.State == "record"
	req := &base.Request{Method: base.Method(c.Method), URL: bed.MustURL(v.url),
		Header: base.Header{"Session": base.HeaderValue{v.sid}}}
	if c.Method == "SETUP" {
		// the second track, as the legitimate peer would set it up
		req.URL = bed.MustURL(v.url + "/trackID=1")
		port := 0
		if proto == "udp" {
			port = bed.FreeUDPPair(fromIP)
		}
		req.Header["Transport"] = c19transport(proto, 1, record, port)
	}
	status := 499 // no response at all
	delivered := false
	if c.Method == "FRAME" {
		// well-formed packets for the session's first media, framed for its channels 0 and 1
		const fid = 7001
		var buf []byte
		for ch, pl := range [][]byte{c19marshal(tr, c19rtpPkt(c19pt0, 4242, 0x19F7A3E5, fid)), c19marshal(tr, c19srPkt(0x19F7A3E5, fid))} {
			buf = append(buf, '$', byte(ch), byte(len(pl)>>8), byte(len(pl)))
			buf = append(buf, pl...)
		}
		in.N.SetWriteDeadline(time.Now().Add(2 * time.Second)) //nolint:errcheck
		in.N.Write(buf)                                        //nolint:errcheck
		c19poll(c19window, func() bool {
			delivered = seen.has("rtp", fid) || seen.has("rtcp", fid)
			return delivered
		})
		// the attempt "receives an error": the connection is ended, or at least answers no more
		if r := in.Do(&base.Request{Method: base.Options, URL: bed.MustURL(v.url)}); r.Res != nil {
			status = int(r.Res.StatusCode)
		}
	} else {
		r := in.Do(req)
		if r.Res != nil {
			status = int(r.Res.StatusCode)
		}
	}
	time.Sleep(100 * time.Millisecond)
	st1 := sess.State()
	cmu.Lock()
	closed := closedSess[sess]
	cmu.Unlock()
	opened1, _, _, _ := bd.Counters()
	how := c.How
	if how == "ip6" {
		how = "ip" // the same clause: another address
	}
	tr.Emit("steal", "how", how, "status", status, "same", st1 == st0 && !closed && !delivered,
		"state", c.State, "method", c.Method, "st0", st0.String(), "st1", st1.String(), "closed", closed,
		"newSessions", opened1-opened0, "early", c.Early, "earlyStatus", earlyStatus)
	tr.Emit("end")
	return nil
}

// c19otherIPv6 returns a global IPv6 address of this host other than the loopback one ("" if none).
func c19otherIPv6() string {
	addrs, err := net.InterfaceAddrs()
	if err != nil {
		return ""
	}
	for _, a := range addrs {
		if n, ok := a.(*net.IPNet); ok && n.IP.To4() == nil && !n.IP.IsLoopback() && !n.IP.IsLinkLocalUnicast() {
			return n.IP.String()
		}
	}
	return ""
}
