package main

// C18 driver: outbound packets never exceed the configured maximum size.
//
// Part 1 (class c18/start): Client.Start / Server.Start with a table of MaxPacketSize x
// WriteQueueSize values.
//
// Part 2: TLC (spec/PacketSize.tla) enumerates entry x kind x secure x mki x maximum x
// plain size around the limit. Cases are grouped by (max, secure, mki); per group ONE real
// server (MaxPacketSize = max, UDP enabled, TLS + SRTP when secure) is started with
//   - a reading client over UDP and one over TCP, both playing            (entry "stream":
//     ServerStream.WritePacketRTP/RTCP reaches both; entry "session", kind rtp:
//     ServerSession.WritePacketRTP on the reader's own play session - a record session has
//     no RTP sender, ServerSession.WritePacketRTP dereferences a nil *rtpsender.Sender there),
//   - a publishing client over UDP and one over TCP, MaxPacketSize = max  (entry "client":
//     Client.WritePacketRTP/RTCP; entry "session", kind rtcp: ServerSession.WritePacketRTCP
//     on the server side of the publisher's record session).
// The wire is observed with taps (internal/bed/tap.go) on the WRITING side: the server's two
// UDP sockets and accepted connections, the publisher's UDP sockets and its connection; with
// TLS the tap sits on the clear-text side of the tls.Conn (Server.TLSListen /
// Client.DialTLSContext), so interleaved frames are seen as the library wrote them.
// Writes are done one at a time; what the tap records between the call and the arrival of
// the expected number of packets (or a timeout) is attributed to the call.
//
// Entry "client" through an ONVIF back channel (via = "backchannel"): the cases of entry "client"
// are executed a second time through Client.WritePacketRTP / WritePacketRTCP of a READING client
// (RequestBackChannels = true, MaxPacketSize = max) that plays, over UDP and over TCP, a stream
// with a back-channel media (G711, payload type 0) and writes on that media. These clients talk
// to a second server of the group (same configuration, served stream = 2 regular medias + the
// back channel) so that they are not readers of the stream the "stream" entry writes to. Their
// UDP sockets and connection are tapped exactly like the publisher's. Before PLAY such a client
// sends its own hole-punching packets (regular medias only); they are accounted for before the
// first write. In the mki groups that server too refuses the first SETUP with 463: the reading
// client then manages the keys itself and its back-channel packets carry the MKI.
// The library does not restrict RTCP on a back channel: Client.WritePacketRTCP takes the same
// path (clientMedia.writePacketRTCP) for any set-up media of a playing or recording client.
//
// Entry "multicast" (transport "mcast"): ServerStream.WritePacketRTP/RTCP on a stream whose only
// reader set it up with multicast delivery (library Client, Protocol = ProtocolUDPMulticast;
// RTP/SAVP + MIKEY when secure: the library does protect multicast with the stream's outbound
// context, server_stream.go hands ssm.srtpOutCtx to the multicast writer). These scenarios run
// on their own server, listening on a multicast-capable interface address. The multicast
// writer's sockets are NOT created through Server.ListenPacket (pkg/multicast NewMultiConn
// ignores that argument and opens raw sockets with syscall.Socket), so a tap cannot wrap them:
// the datagrams are observed on the RECEIVING side, by sockets of the driver that are bound to
// every (group, port) the SETUP responses announced and joined on every multicast interface
// (64 KiB read buffers: an oversize datagram is seen whole). The server writes one copy per
// multicast interface; the number of copies per write is measured with a small calibration
// packet before the cases start.
//
// Shapes: every case carries the shape of the packet that reaches the requested plain size -
// RTP: payload only / 1-3 CSRCs / one-byte header extension / padding / extension + padding;
// RTCP: one packet / SR + SDES (+ APP) compound / RR with report blocks + SDES (+ APP) compound /
// raw bytes of exactly the requested size; structured RTCP sizes are multiples of 4, other
// requested sizes are rounded down or up ("round"). The quick tier samples one shape per case
// from the scenario seed, the thorough tier runs every shape. Shape and rounding are part of
// the replay descriptor and of the "write" event.
//
// A master key identifier (mki=true) is only ever used by the library for a CLIENT's
// outbound context, in "Axis client-managed keys" mode, which a client enters when SETUP is
// answered 463 "Key Management Failure": the mki groups run a server whose handler refuses
// the first SETUP of every session that way. The server's outbound contexts never carry an
// MKI (server_session.go, server_stream_media.go): PacketSize.tla does not generate mki cases for
// "session" / "stream" / "multicast"; any that appear are skipped (DRIVER-STAT skipped_mki).

import (
	"context"
	"crypto/tls"
	"encoding/json"
	"fmt"
	"io"
	"log"
	"math/rand"
	"net"
	"os"
	"sort"
	"strconv"
	"strings"
	"sync"
	"sync/atomic"
	"syscall"
	"time"

	"github.com/bluenviron/gortsplib/v5"
	"github.com/bluenviron/gortsplib/v5/pkg/base"
	"github.com/bluenviron/gortsplib/v5/pkg/description"
	"github.com/bluenviron/gortsplib/v5/pkg/format"
	"github.com/bluenviron/gortsplib/v5/pkg/headers"
	"github.com/pion/rtcp"
	"github.com/pion/rtp"

	"verifharness/internal/bed"
	"verifharness/internal/vt"
)

func init() { drivers["c18"] = driveC18 }

type c18case struct {
	Entry  string `json:"entry"`
	Kind   string `json:"kind"`
	Secure bool   `json:"secure"`
	MKI    bool   `json:"mki"`
	Max    int    `json:"max"`
	Plain  int    `json:"plain"`
	Fits   bool   `json:"fits"`
	Wire   int    `json:"wire"`
	// Shape of the packet (c18rtpShapes / c18rtcpShapes); empty: sampled from the scenario seed.
	Shape string `json:"shape,omitempty"`
	// Round: structured RTCP shapes when Plain is not a multiple of 4: "down" | "up".
	Round string `json:"round,omitempty"`
}

// c18scn is one trace (and the replay descriptor).
type c18scn struct {
	Probe     string    `json:"probe,omitempty"` // "record_rtp": what ServerSession.WritePacketRTP does on a record session (stdout only)
	Start     bool      `json:"start,omitempty"`
	Max       int       `json:"max"`
	Secure    bool      `json:"secure"`
	MKI       bool      `json:"mki"`
	Entry     string    `json:"entry"`
	Transport string    `json:"transport"`     // "udp" | "tcp" | "udp+tcp" (stream) | "mcast" (multicast)
	Via       string    `json:"via,omitempty"` // entry "client": "" = a publishing client, "backchannel" = a reading client's back channel
	Seed      int64     `json:"seed"`
	Cases     []c18case `json:"cases"`
}

type c18stats struct {
	writes, drift, late, trunc, noshow, reconnects, failed, sent, over atomic.Int64
	mcast, mcastSent, reshaped                                         atomic.Int64
	bcWrites, bcSent                                                   atomic.Int64

	mu      sync.Mutex
	driftBy map[string]int    // class -> count
	driftEx map[string]string // class -> smallest example
	shapeBy map[string]int    // kind/shape actually written -> count
}

func (st *c18stats) addShape(kind, shape string) {
	st.mu.Lock()
	if st.shapeBy == nil {
		st.shapeBy = map[string]int{}
	}
	st.shapeBy[kind+"/"+shape]++
	st.mu.Unlock()
}

func (st *c18stats) addDrift(class, example string) {
	st.drift.Add(1)
	st.mu.Lock()
	if st.driftBy == nil {
		st.driftBy, st.driftEx = map[string]int{}, map[string]string{}
	}
	if st.driftBy[class] == 0 || example < st.driftEx[class] {
		st.driftEx[class] = example // smallest: groups run in parallel, keep the output stable
	}
	st.driftBy[class]++
	st.mu.Unlock()
}

const (
	c18waitFailed = 15 * time.Millisecond  // after a write that returned an error: nothing must appear
	c18waitSent   = 250 * time.Millisecond // upper bound for the packets of a successful write (normally < 1 ms)
)

func driveC18(a *args, s *vt.Sink) error {
	st := &c18stats{}
	// the server logs decode errors of inbound packets (our RTCP raw packets are opaque bytes)
	log.SetOutput(io.Discard)
	defer log.SetOutput(os.Stderr)
	if err := c18selfcheck(); err != nil {
		return err
	}
	if a.replay != "" {
		var sc c18scn
		if err := json.Unmarshal([]byte(a.replay), &sc); err != nil {
			return err
		}
		if sc.Start {
			c18start(s)
			return nil
		}
		if sc.Probe != "" {
			return c18probe(&sc)
		}
		trs, err := c18runGroup([]*c18scn{&sc}, s, st)
		for _, tr := range trs {
			tr.End()
		}
		c18printStats(st, 0, 0)
		return err
	}
	if a.in == "" {
		return fmt.Errorf("c18 needs -in (cases generated by TLC from spec/PacketSize.tla)")
	}
	lines, err := readLines(a.in)
	if err != nil {
		return err
	}
	c18start(s)

	type gkey struct {
		max         int
		secure, mki bool
	}
	groups := map[gkey]map[string][]c18case{}
	var keys []gkey
	ncases, skipped := 0, 0
	for i, line := range lines {
		line = strings.TrimPrefix(line, `/\ beh = `)
		if strings.HasPrefix(line, `"`) {
			if uq, err := strconv.Unquote(line); err == nil {
				line = uq
			}
		}
		if line == "" {
			continue
		}
		var c c18case
		if err := json.Unmarshal([]byte(line), &c); err != nil {
			return fmt.Errorf("c18: case %d: %w", i+1, err)
		}
		if c.MKI && c.Entry != "client" {
			skipped++
			continue
		}
		ncases++
		k := gkey{c.Max, c.Secure, c.MKI}
		if groups[k] == nil {
			groups[k] = map[string][]c18case{}
			keys = append(keys, k)
		}
		groups[k][c.Entry] = append(groups[k][c.Entry], c)
	}
	sort.Slice(keys, func(i, j int) bool {
		x, y := keys[i], keys[j]
		if x.max != y.max {
			return x.max < y.max
		}
		if x.secure != y.secure {
			return !x.secure
		}
		return !x.mki && y.mki
	})
	var all [][]*c18scn
	for gi, k := range keys {
		var scns []*c18scn
		for _, entry := range []string{"stream", "session", "client", "multicast"} {
			cs := groups[k][entry]
			if len(cs) == 0 {
				continue
			}
			sort.SliceStable(cs, func(i, j int) bool {
				if cs[i].Plain != cs[j].Plain {
					return cs[i].Plain < cs[j].Plain
				}
				return cs[i].Kind < cs[j].Kind
			})
			trs := []string{"udp", "tcp"}
			switch entry {
			case "stream":
				trs = []string{"udp+tcp"}
			case "multicast":
				trs = []string{"mcast"}
			}
			for ti, t := range trs {
				seed := a.seed*1000003 + int64(gi)*101 + int64(ti)
				if entry == "multicast" {
					seed += 7
				}
				scns = append(scns, &c18scn{Max: k.max, Secure: k.secure, MKI: k.mki, Entry: entry, Transport: t,
					Seed: seed, Cases: c18shapeCases(cs, seed, a.tier == "thorough")})
			}
			if entry == "client" { // the same cases through a reading client's back channel
				for ti, t := range trs {
					seed := a.seed*1000003 + int64(gi)*101 + 11 + int64(ti)
					scns = append(scns, &c18scn{Max: k.max, Secure: k.secure, MKI: k.mki, Entry: entry, Transport: t,
						Via: c18viaBC, Seed: seed, Cases: c18shapeCases(cs, seed, a.tier == "thorough")})
				}
			}
		}
		all = append(all, scns)
	}

	// groups are independent (own server, own clients): run them in parallel, write the traces in order
	results := make([][]*vt.Trace, len(all))
	errs := make([]error, len(all))
	sem := make(chan struct{}, 6)
	var wg sync.WaitGroup
	for i := range all {
		wg.Add(1)
		go func(i int) {
			defer wg.Done()
			sem <- struct{}{}
			defer func() { <-sem }()
			results[i], errs[i] = c18runGroup(all[i], s, st)
		}(i)
	}
	wg.Wait()
	for _, trs := range results {
		for _, tr := range trs {
			tr.End()
		}
	}
	c18printStats(st, ncases, skipped)
	for _, err := range errs {
		if err != nil {
			return err
		}
	}
	return nil
}

func c18printStats(st *c18stats, ncases, skipped int) {
	fmt.Printf("DRIVER-STAT cases=%d skipped_mki=%d writes=%d failed=%d sent=%d\n", ncases, skipped,
		st.writes.Load(), st.failed.Load(), st.sent.Load())
	fmt.Printf("DRIVER-STAT multicast_writes=%d\n", st.mcast.Load())
	fmt.Printf("DRIVER-STAT multicast_sent=%d\n", st.mcastSent.Load())
	fmt.Printf("DRIVER-STAT backchannel_writes=%d\n", st.bcWrites.Load())
	fmt.Printf("DRIVER-STAT backchannel_sent=%d\n", st.bcSent.Load())
	var shapes []string
	for k, n := range st.shapeBy {
		shapes = append(shapes, fmt.Sprintf("%s:%d", k, n))
	}
	sort.Strings(shapes)
	fmt.Printf("DRIVER-STAT shapes=%s\n", strings.Join(shapes, ","))
	fmt.Printf("DRIVER-STAT reshaped=%d\n", st.reshaped.Load()) // no room for the requested shape: a simpler one was written
	fmt.Printf("DRIVER-STAT model_drift=%d\n", st.drift.Load())
	var classes []string
	for k := range st.driftBy {
		classes = append(classes, k)
	}
	sort.Strings(classes)
	for _, k := range classes {
		fmt.Printf("DRIVER-STAT model_drift_class %s n=%d e.g. %s\n", k, st.driftBy[k], st.driftEx[k])
	}
	// one value per line: vcheck copies those into the evidence file
	for _, kv := range []struct {
		k string
		v int64
	}{{"over_max", st.over.Load()}, {"truncated_frames", st.trunc.Load()}, {"late_packets", st.late.Load()},
		{"noshow", st.noshow.Load()}, {"reconnects", st.reconnects.Load()}} {
		fmt.Printf("DRIVER-STAT %s=%d\n", kv.k, kv.v)
	}
}

// ---- part 1: start-up validation ----------------------------------------------------------

type c18nullHandler struct{}

func c18start(s *vt.Sink) {
	tr := s.Begin("c18/start", `{"start":true}`)
	defer tr.End()
	defer func() {
		if p := recover(); p != nil {
			tr.Emit("panic", "why", fmt.Sprint(p))
		}
	}()
	// the rest of the configuration must not matter: the client's transport protocol (none
	// chosen, UDP, multicast, TCP), a server with or without UDP / multicast listeners
	protoOf := func(v int) *gortsplib.Protocol {
		if v == 0 {
			return nil
		}
		p := []gortsplib.Protocol{gortsplib.ProtocolUDP, gortsplib.ProtocolUDPMulticast, gortsplib.ProtocolTCP}[v-1]
		return &p
	}
	for _, obj := range []string{"client", "server"} {
		for _, maxps := range []int{0, 1, 100, 1471, 1472, 1473, 2000, 65536} {
			for _, wq := range []int{0, 1, 2, 3, 8, 100, 256, 257, 1024} {
				variants := 4
				if obj == "server" {
					variants = 2
				}
				for v := 0; v < variants; v++ {
					var err error
					if obj == "client" {
						c := &gortsplib.Client{MaxPacketSize: maxps, WriteQueueSize: wq, Protocol: protoOf(v)}
						if err = c.Start(); err == nil {
							c.Close()
						}
					} else {
						sv := &gortsplib.Server{Handler: &c18nullHandler{}, RTSPAddress: "127.0.0.1:0",
							MaxPacketSize: maxps, WriteQueueSize: wq}
						if v == 1 {
							port := bed.FreeUDPPair("127.0.0.1")
							sv.UDPRTPAddress = fmt.Sprintf("127.0.0.1:%d", port)
							sv.UDPRTCPAddress = fmt.Sprintf("127.0.0.1:%d", port+1)
						}
						if err = sv.Start(); err == nil {
							sv.Close()
						}
					}
					tr.Emit("startcfg", "obj", obj, "maxps", maxps, "wq", wq, "accepted", err == nil, "variant", v)
				}
			}
		}
	}
	tr.Emit("end")
}

// ---- packets of an exact plain size, in several shapes ---------------------------------------

var (
	c18rtpShapes  = []string{"payload", "csrc1", "csrc2", "csrc3", "ext", "pad", "extpad", "padold"}
	c18rtcpShapes = []string{"single", "compound", "rrcompound", "rrext", "raw"}
)

// c18shapeCases returns a copy of cs in which every case has a shape. all = false: cases
// without a shape get one sampled from the seed (a requested RTCP size that is not a multiple
// of 4 is written exactly, "raw", half of the time, and rounded down or up otherwise);
// all = true: every such case is replaced by one case per shape (and per rounding direction).
func c18shapeCases(cs []c18case, seed int64, all bool) []c18case {
	rs := rand.New(rand.NewSource(seed ^ 0x5ca1ab1e))
	out := make([]c18case, 0, len(cs))
	for _, c := range cs {
		if c.Shape != "" {
			out = append(out, c)
			continue
		}
		odd := c.Kind == "rtcp" && c.Plain%4 != 0
		switch {
		case !all && c.Kind == "rtp":
			c.Shape = c18rtpShapes[rs.Intn(len(c18rtpShapes))]
			out = append(out, c)
		case !all:
			c.Shape = c18rtcpShapes[rs.Intn(len(c18rtcpShapes))]
			if odd {
				if rs.Intn(2) == 0 {
					c.Shape = "raw"
				} else {
					c.Shape = c18rtcpShapes[rs.Intn(4)]
				}
			}
			if odd && c.Shape != "raw" {
				c.Round = []string{"down", "up"}[rs.Intn(2)]
			}
			out = append(out, c)
		case c.Kind == "rtp":
			for _, sh := range c18rtpShapes {
				c.Shape = sh
				out = append(out, c)
			}
		default:
			for _, sh := range c18rtcpShapes {
				c.Shape, c.Round = sh, ""
				if odd && sh != "raw" {
					for _, r := range []string{"down", "up"} {
						c.Round = r
						out = append(out, c)
					}
					continue
				}
				out = append(out, c)
			}
		}
	}
	return out
}

// c18rtp builds an RTP packet whose marshalled size is exactly n (n >= 12) in the given shape:
//
//	payload  12-byte header + payload
//	csrcK    K contributing sources (4 bytes each)
//	ext      header extension, one-byte profile (0xBEDE), one or two elements
//	pad      Padding bit + PaddingSize trailing bytes (1..255)
//	extpad   both
//	padold   Padding bit + the padding length given through the deprecated Packet.PaddingSize
//	         field (Header.PaddingSize = 0), which pion/rtp still honours when marshalling
//
// When n leaves no room for the shape a simpler one is built; the shape built is returned.
func c18rtp(n int, pt uint8, shape string, seq uint16, ts uint32, rng *rand.Rand) (*rtp.Packet, string) {
	mk := func() *rtp.Packet {
		return &rtp.Packet{Header: rtp.Header{Version: 2, PayloadType: pt, SequenceNumber: seq, Timestamp: ts,
			SSRC: 0x1234ABCD, Marker: seq%3 == 0}}
	}
	pkt := mk()
	built := "payload"
	addExt := func() bool {
		// 4 bytes of extension header + elements of 1 + len bytes, padded to a multiple of 4
		l1 := 1 + rng.Intn(8)
		two := rng.Intn(2) == 0
		for try := 0; try < 2; try++ {
			p := mk()
			d := make([]byte, l1)
			rng.Read(d)
			_ = p.Header.SetExtension(1, d)
			if two && try == 0 {
				_ = p.Header.SetExtension(5, []byte{0xAA, 0xBB})
			}
			if p.Header.MarshalSize() <= n {
				pkt = p
				return true
			}
			l1, two = 1, false // smallest: 4 + 4 bytes
		}
		return false
	}
	addPad := func() bool {
		room := n - pkt.Header.MarshalSize()
		if room < 1 {
			return false
		}
		if room > 255 {
			room = 255
		}
		k := 1 + rng.Intn(room)
		if rng.Intn(2) == 0 && k > 8 {
			k = 1 + k%8 // short paddings as often as long ones
		}
		pkt.Header.Padding = true
		pkt.Header.PaddingSize = byte(k)
		return true
	}
	switch shape {
	case "csrc1", "csrc2", "csrc3":
		k := int(shape[4] - '0')
		for ; k > 0; k-- {
			if n >= 12+4*k {
				break
			}
		}
		if k > 0 {
			for i := 0; i < k; i++ {
				pkt.Header.CSRC = append(pkt.Header.CSRC, 0xC0000000+uint32(i))
			}
			built = fmt.Sprintf("csrc%d", k)
		}
	case "ext":
		if addExt() {
			built = "ext"
		}
	case "pad":
		if addPad() {
			built = "pad"
		}
	case "padold":
		if addPad() {
			built = "padold"
		}
	case "extpad":
		e := addExt()
		p := addPad()
		switch {
		case e && p:
			built = "extpad"
		case e:
			built = "ext"
		case p:
			built = "pad"
		}
	}
	pl := n - pkt.Header.MarshalSize() - int(pkt.Header.PaddingSize)
	if pl < 0 {
		pl = 0
	}
	pkt.Payload = make([]byte, pl)
	rng.Read(pkt.Payload)
	if pl > 0 {
		pkt.Payload[0] = 0x41 // H264 non-IDR slice; opaque for Opus
	}
	if built == "padold" {
		pkt.PaddingSize, pkt.Header.PaddingSize = pkt.Header.PaddingSize, 0 //nolint:staticcheck
	}
	return pkt, built
}

// c18rtcp builds an RTCP packet in the given shape:
//
//	single      one APP packet (an empty receiver report when the size is 8)
//	compound    SenderReport + SourceDescription(CNAME) [+ APP]
//	rrcompound  ReceiverReport with up to 3 report blocks + SourceDescription(CNAME) [+ APP]
//	rrext       one ReceiverReport whose size comes from its profile-specific extension bytes
//	raw         an rtcp.RawPacket of EXACTLY n bytes (valid header, APP type) - the library
//	            writes whatever Marshal returns
//
// Structured RTCP sizes are multiples of 4: when n is not, it is rounded down (round != "up")
// or up to the nearest one (>= 8). The compound shapes reach the size exactly with the length
// of the CNAME (+0 / +4 / +8) and the data of the trailing APP packet. The marshalled size and
// the shape built (a simpler one when there is no room) are returned.
func c18rtcp(n int, shape, round string, rng *rand.Rand) (rtcp.Packet, int, string) {
	ssrc := uint32(0x0BADCAFE)
	if shape == "raw" && n >= 8 {
		b := make([]byte, n)
		rng.Read(b)
		b[0], b[1] = 0x80, 204
		b[2], b[3] = byte((n/4-1)>>8), byte(n/4-1)
		p := rtcp.RawPacket(b)
		return &p, n, "raw"
	}
	n4 := n / 4 * 4
	if n4 != n && round == "up" {
		n4 += 4
	}
	if n4 < 8 {
		n4 = 8
	}
	app := func(size int) rtcp.Packet { // size >= 12
		data := make([]byte, size-12)
		rng.Read(data)
		return &rtcp.ApplicationDefined{SSRC: ssrc, Name: "VRIF", Data: data}
	}
	// tail fills `rem` bytes (a multiple of 4, >= 16) with a SourceDescription and, when there
	// is room, an APP packet
	tail := func(rem int) []rtcp.Packet {
		cname := func(l int) rtcp.Packet { // 3 -> 16 bytes, 7 -> 20, 11 -> 24
			return &rtcp.SourceDescription{Chunks: []rtcp.SourceDescriptionChunk{{Source: ssrc,
				Items: []rtcp.SourceDescriptionItem{{Type: rtcp.SDESCNAME, Text: "c18@verif.example"[:l]}}}}}
		}
		if rem-16 >= 12 {
			return []rtcp.Packet{cname(3), app(rem - 16)}
		}
		return []rtcp.Packet{cname(3 + rem - 16)}
	}
	var pkt rtcp.Packet
	built := "single"
	switch {
	case n4 == 8:
		pkt = &rtcp.ReceiverReport{SSRC: ssrc}
	case shape == "compound" && n4 >= 28+16:
		cp := rtcp.CompoundPacket{&rtcp.SenderReport{SSRC: ssrc, NTPTime: 0x0102030405060708, RTPTime: 90000,
			PacketCount: 1, OctetCount: 100}}
		cp = append(cp, tail(n4-28)...)
		pkt, built = &cp, "compound"
	case shape == "rrcompound" && n4 >= 8+16:
		k := (n4 - 8 - 16) / 24
		if k > 3 {
			k = 3
		}
		rr := &rtcp.ReceiverReport{SSRC: ssrc}
		for i := 0; i < k; i++ {
			rr.Reports = append(rr.Reports, rtcp.ReceptionReport{SSRC: 0xC0000000 + uint32(i), FractionLost: 1,
				TotalLost: 2, LastSequenceNumber: 1000, Jitter: 3, LastSenderReport: 4, Delay: 5})
		}
		cp := rtcp.CompoundPacket{rr}
		cp = append(cp, tail(n4-8-24*k)...)
		pkt, built = &cp, "rrcompound"
	case shape == "rrext" && n4 >= 12:
		ext := make([]byte, n4-8)
		rng.Read(ext)
		pkt, built = &rtcp.ReceiverReport{SSRC: ssrc, ProfileExtensions: ext}, "rrext"
	default:
		pkt = app(n4)
	}
	b, err := pkt.Marshal()
	if err != nil {
		panic(fmt.Sprintf("c18: cannot build an RTCP packet (%s) of %d bytes: %v", shape, n4, err))
	}
	if len(b) != n4 {
		panic(fmt.Sprintf("c18: RTCP packet (%s) has %d bytes instead of %d", built, len(b), n4))
	}
	return pkt, len(b), built
}

// c18selfcheck verifies the builders themselves: every shape yields exactly the requested
// size (the nearest multiples of 4 for structured RTCP). A failure is a harness error.
func c18selfcheck() (err error) {
	defer func() {
		if p := recover(); p != nil {
			err = fmt.Errorf("c18 selfcheck: %v", p)
		}
	}()
	rng := rand.New(rand.NewSource(7))
	for n := 12; n <= 1500; n++ {
		for _, sh := range c18rtpShapes {
			pkt, built := c18rtp(n, 96, sh, uint16(n), 1, rng)
			b, merr := pkt.Marshal()
			if merr != nil || len(b) != n || pkt.MarshalSize() != n {
				return fmt.Errorf("c18 selfcheck: rtp %s (built %s) n=%d: %d bytes, %v", sh, built, n, len(b), merr)
			}
			var back rtp.Packet
			if uerr := back.Unmarshal(b); uerr != nil {
				return fmt.Errorf("c18 selfcheck: rtp %s n=%d does not parse: %v", sh, n, uerr)
			}
			if n >= 12+12+8+1 && built != sh {
				return fmt.Errorf("c18 selfcheck: rtp %s n=%d built as %s", sh, n, built)
			}
		}
		for _, sh := range c18rtcpShapes {
			for _, rd := range []string{"down", "up"} {
				want := n / 4 * 4
				if want != n && rd == "up" {
					want += 4
				}
				if sh == "raw" {
					want = n
				}
				pkt, sz, built := c18rtcp(n, sh, rd, rng)
				b, merr := pkt.Marshal()
				if merr != nil || len(b) != sz || sz != want {
					return fmt.Errorf("c18 selfcheck: rtcp %s/%s (built %s) n=%d: %d bytes, want %d, %v", sh, rd, built, n, len(b), want, merr)
				}
				// (rrext: pion's marshaller leaves the extension bytes out of the header's length
				// field, so its own parser does not take the bytes back; the sizes are what matters)
				if sh != "raw" && sh != "rrext" {
					if _, uerr := rtcp.Unmarshal(b); uerr != nil {
						return fmt.Errorf("c18 selfcheck: rtcp %s n=%d does not parse: %v", sh, n, uerr)
					}
				}
				if n >= 44 && built != sh {
					return fmt.Errorf("c18 selfcheck: rtcp %s n=%d built as %s", sh, n, built)
				}
			}
		}
	}
	return nil
}

// ---- the model's prediction (PacketSize.tla), recomputed when the real plain size differs ------

func c18model(c c18case, plain int) (fits bool, wire int) {
	if plain == c.Plain {
		return c.Fits, c.Wire
	}
	ov, res := 0, 0
	if c.Secure {
		res = 10
		ov = 10
		if c.Kind == "rtcp" {
			ov = 14
		}
		if c.MKI {
			ov += 4
		}
	}
	return plain <= c.Max-res, plain + ov
}

// ---- server handler wrapper for the MKI groups ------------------------------------------------

type c18handler struct {
	inner   gortsplib.ServerHandler
	mu      sync.Mutex
	refused map[*gortsplib.ServerSession]bool
}

func (h *c18handler) OnConnOpen(ctx *gortsplib.ServerHandlerOnConnOpenCtx) {
	h.inner.(gortsplib.ServerHandlerOnConnOpen).OnConnOpen(ctx)
}

func (h *c18handler) OnConnClose(ctx *gortsplib.ServerHandlerOnConnCloseCtx) {
	h.inner.(gortsplib.ServerHandlerOnConnClose).OnConnClose(ctx)
}

func (h *c18handler) OnSessionOpen(ctx *gortsplib.ServerHandlerOnSessionOpenCtx) {
	h.inner.(gortsplib.ServerHandlerOnSessionOpen).OnSessionOpen(ctx)
}

func (h *c18handler) OnSessionClose(ctx *gortsplib.ServerHandlerOnSessionCloseCtx) {
	h.inner.(gortsplib.ServerHandlerOnSessionClose).OnSessionClose(ctx)
}

func (h *c18handler) OnDescribe(ctx *gortsplib.ServerHandlerOnDescribeCtx) (*base.Response, *gortsplib.ServerStream, error) {
	return h.inner.(gortsplib.ServerHandlerOnDescribe).OnDescribe(ctx)
}

func (h *c18handler) OnAnnounce(ctx *gortsplib.ServerHandlerOnAnnounceCtx) (*base.Response, error) {
	return h.inner.(gortsplib.ServerHandlerOnAnnounce).OnAnnounce(ctx)
}

// OnSetup answers the first SETUP of every session as an Axis device that wants
// client-managed keys does; the client then retries with a key and a master key identifier.
func (h *c18handler) OnSetup(ctx *gortsplib.ServerHandlerOnSetupCtx) (*base.Response, *gortsplib.ServerStream, error) {
	h.mu.Lock()
	first := !h.refused[ctx.Session]
	h.refused[ctx.Session] = true
	h.mu.Unlock()
	if first {
		return &base.Response{StatusCode: base.StatusKeyManagementFailure, StatusMessage: "Key Management Failure"}, nil, nil
	}
	return h.inner.(gortsplib.ServerHandlerOnSetup).OnSetup(ctx)
}

func (h *c18handler) OnPlay(ctx *gortsplib.ServerHandlerOnPlayCtx) (*base.Response, error) {
	return h.inner.(gortsplib.ServerHandlerOnPlay).OnPlay(ctx)
}

func (h *c18handler) OnRecord(ctx *gortsplib.ServerHandlerOnRecordCtx) (*base.Response, error) {
	return h.inner.(gortsplib.ServerHandlerOnRecord).OnRecord(ctx)
}

func (h *c18handler) OnPause(ctx *gortsplib.ServerHandlerOnPauseCtx) (*base.Response, error) {
	return h.inner.(gortsplib.ServerHandlerOnPause).OnPause(ctx)
}

func (h *c18handler) OnStreamWriteError(ctx *gortsplib.ServerHandlerOnStreamWriteErrorCtx) {
	h.inner.(gortsplib.ServerHandlerOnStreamWriteError).OnStreamWriteError(ctx)
}

// ---- one group: one server, its readers and publishers ------------------------------------------

type c18pub struct {
	c      *gortsplib.Client
	desc   *description.Session
	tap    *bed.Tap
	ss     *gortsplib.ServerSession // server side of the record session
	dead   atomic.Bool
	reason atomic.Value
}

const c18viaBC = "backchannel"

// c18bc is a reading client that plays a stream with a back channel and writes on it.
type c18bc struct {
	rd     *bed.Reader
	medi   *description.Media // the back-channel media, as described to the client
	medIdx int                // its index in the description
	pt     uint8
	tap    *bed.Tap
	seq    uint16
	dead   atomic.Bool
	reason atomic.Value
}

type c18reader struct {
	rd *bed.Reader
	ss *gortsplib.ServerSession // server side of the play session
}

type c18env struct {
	max         int
	secure, mki bool
	bd          *bed.Bed
	srvTap      *bed.Tap
	readers     map[string]*c18reader
	pubs        map[string]*c18pub
	bcBed       *bed.Bed // second server: its stream has a back channel, nobody writes to the stream
	bcs         map[string]*c18bc
	accounted   map[*bed.Tap]int
	seq         [2]uint16 // RTP sequence numbers, per media, shared by everything the group writes
	mc          *c18mcast
	st          *c18stats
	recMu       sync.Mutex
	lastRec     *gortsplib.ServerSession
}

func c18runGroup(scns []*c18scn, s *vt.Sink, st *c18stats) (trs []*vt.Trace, err error) {
	if len(scns) == 0 {
		return nil, nil
	}
	g := scns[0]
	e := &c18env{max: g.Max, secure: g.Secure, mki: g.MKI, srvTap: bed.NewTap(), readers: map[string]*c18reader{},
		pubs: map[string]*c18pub{}, accounted: map[*bed.Tap]int{}, st: st}
	// ReadTimeout: the publishers send nothing for as long as a scenario lasts (all shapes in the
	// thorough tier: more than the default 10 s); the server must not drop their sessions meanwhile
	cfg := bed.ServerCfg{UDP: true, MaxPacketSize: g.Max, Medias: 2, ReportPeriod: time.Hour, ReadTimeout: 120 * time.Second}
	if g.Secure {
		cfg.TLS = bed.SelfSignedTLS()
	}
	cfg.Extra = func(sv *gortsplib.Server) {
		sv.DisableRTCPSenderReports = true
		sv.ListenPacket = e.srvTap.ListenPacket
		sv.Listen = func(network, address string) (net.Listener, error) {
			l, err := net.Listen(network, address)
			if err != nil {
				return nil, err
			}
			return e.srvTap.Listener(l), nil
		}
		sv.TLSListen = func(network, laddr string, config *tls.Config) (net.Listener, error) {
			l, err := tls.Listen(network, laddr, config)
			if err != nil {
				return nil, err
			}
			return e.srvTap.Listener(l), nil // clear-text side of the TLS connections
		}
		if g.MKI {
			if _, ok := sv.Handler.(*c18handler); !ok {
				sv.Handler = &c18handler{inner: sv.Handler, refused: map[*gortsplib.ServerSession]bool{}}
			}
		}
	}
	e.bd, err = bed.Start(cfg)
	if err != nil {
		return nil, fmt.Errorf("c18: server (max=%d secure=%v): %w", g.Max, g.Secure, err)
	}
	e.bd.OnRecordHook = func(ctx *gortsplib.ServerHandlerOnRecordCtx) {
		e.recMu.Lock()
		e.lastRec = ctx.Session
		e.recMu.Unlock()
	}
	// the back-channel scenarios have a server, clients and taps of their own (backchannel()):
	// they run beside the others, with an environment of their own, and do not lengthen the group
	eb := &c18env{max: g.Max, secure: g.Secure, mki: g.MKI, srvTap: bed.NewTap(), readers: map[string]*c18reader{},
		pubs: map[string]*c18pub{}, accounted: map[*bed.Tap]int{}, st: st}
	defer func() {
		for _, p := range e.pubs {
			p.c.Close()
		}
		for _, r := range e.readers {
			r.rd.Close()
		}
		for _, b := range eb.bcs {
			b.rd.Close()
		}
		if eb.bcBed != nil {
			eb.bcBed.Close()
		}
		if e.mc != nil {
			e.mc.close()
		}
		e.bd.Close()
	}()
	all := make([]*vt.Trace, len(scns))
	var sideErr error
	var wg sync.WaitGroup
	wg.Add(1)
	go func() {
		defer wg.Done()
		for i, sc := range scns {
			if sc.Via != "" {
				if all[i], sideErr = eb.runScn(sc, s); sideErr != nil {
					return
				}
			}
		}
	}()
	for i, sc := range scns {
		if sc.Via == "" {
			if all[i], err = e.runScn(sc, s); err != nil {
				break
			}
		}
	}
	wg.Wait()
	for _, tr := range all { // in the order of scns
		if tr != nil {
			trs = append(trs, tr)
		}
	}
	if err == nil {
		err = sideErr
	}
	return trs, err
}

// ---- multicast: own server, one multicast reader, receiving-side observation ----------------------

type c18mcast struct {
	bd     *bed.Bed
	rd     *bed.Reader
	tap    *bed.Tap // filled by the observing sockets
	conns  []net.PacketConn
	copies int // datagrams observed per write (one per multicast interface the server writes on)
}

func (m *c18mcast) close() {
	if m.rd != nil {
		m.rd.Close()
	}
	for _, c := range m.conns {
		c.Close()
	}
	if m.bd != nil {
		m.bd.Close()
	}
}

// c18discard is a packet connection that swallows what is written to it: wrapped by a
// bed.Tap it turns the tap into a recorder of datagrams observed elsewhere.
type c18discard struct{}

func (c18discard) ReadFrom([]byte) (int, net.Addr, error)    { return 0, nil, io.EOF }
func (c18discard) WriteTo(p []byte, _ net.Addr) (int, error) { return len(p), nil }
func (c18discard) Close() error                              { return nil }
func (c18discard) LocalAddr() net.Addr                       { return &net.UDPAddr{} }
func (c18discard) SetDeadline(time.Time) error               { return nil }
func (c18discard) SetReadDeadline(time.Time) error           { return nil }
func (c18discard) SetWriteDeadline(time.Time) error          { return nil }

// c18mcastIfaces returns the IPv4 address of every interface that is up and multicast-capable.
func c18mcastIfaces() (ips []net.IP) {
	intfs, _ := net.Interfaces()
	for _, intf := range intfs {
		if intf.Flags&net.FlagMulticast == 0 || intf.Flags&net.FlagUp == 0 {
			continue
		}
		addrs, _ := intf.Addrs()
		for _, a := range addrs {
			if n, ok := a.(*net.IPNet); ok {
				if ip4 := n.IP.To4(); ip4 != nil {
					ips = append(ips, ip4)
					break
				}
			}
		}
	}
	return ips
}

// c18join opens a socket bound to group:port (so that it only receives datagrams sent to
// that group) and joins the group on every multicast interface.
func c18join(group net.IP, port int) (net.PacketConn, error) {
	sock, err := syscall.Socket(syscall.AF_INET, syscall.SOCK_DGRAM, syscall.IPPROTO_UDP)
	if err != nil {
		return nil, err
	}
	f := os.NewFile(uintptr(sock), "c18-mcast")
	defer f.Close() // FilePacketConn works on a duplicate
	if err = syscall.SetsockoptInt(sock, syscall.SOL_SOCKET, syscall.SO_REUSEADDR, 1); err != nil {
		return nil, err
	}
	_ = syscall.SetsockoptInt(sock, syscall.SOL_SOCKET, syscall.SO_RCVBUF, 1<<20)
	var sa syscall.SockaddrInet4
	sa.Port = port
	copy(sa.Addr[:], group.To4())
	if err = syscall.Bind(sock, &sa); err != nil {
		return nil, err
	}
	joined := 0
	for _, ip := range c18mcastIfaces() {
		var mreq syscall.IPMreq
		copy(mreq.Multiaddr[:], group.To4())
		copy(mreq.Interface[:], ip)
		if syscall.SetsockoptIPMreq(sock, syscall.IPPROTO_IP, syscall.IP_ADD_MEMBERSHIP, &mreq) == nil {
			joined++
		}
	}
	if joined == 0 {
		return nil, fmt.Errorf("cannot join %s on any interface", group)
	}
	return net.FilePacketConn(f)
}

var c18mcastSeq atomic.Int64

// multicast starts (once per group) a server of the group's configuration that offers
// multicast delivery, a library client that sets the stream up with Transport:
// RTP/AVP;multicast (RTP/SAVP when secure) and plays, and the observing sockets.
func (e *c18env) multicast() (m *c18mcast, err error) {
	if e.mc != nil {
		return e.mc, nil
	}
	ips := c18mcastIfaces()
	if len(ips) == 0 {
		return nil, fmt.Errorf("c18: no multicast-capable interface: the multicast entry cannot be exercised")
	}
	m = &c18mcast{tap: bed.NewTap()}
	defer func() {
		if err != nil {
			m.close()
		}
	}()
	// a range of its own per server (servers of other groups run in parallel; other processes may
	// use multicast too)
	ipRange := fmt.Sprintf("239.%d.%d.0/24", 64+os.Getpid()%128, c18mcastSeq.Add(1)%256)
	cfg := bed.ServerCfg{UDP: true, MaxPacketSize: e.max, Medias: 2, ReportPeriod: time.Hour, IP: ips[0].String(),
		ReadTimeout: 120 * time.Second}
	if e.secure {
		cfg.TLS = bed.SelfSignedTLS()
	}
	cfg.Extra = func(sv *gortsplib.Server) {
		sv.DisableRTCPSenderReports = true
		sv.MulticastIPRange = ipRange
		sv.MulticastRTPPort = bed.FreeUDPPair("0.0.0.0")
		sv.MulticastRTCPPort = sv.MulticastRTPPort + 1
	}
	if m.bd, err = bed.Start(cfg); err != nil {
		return nil, fmt.Errorf("c18: multicast server (max=%d secure=%v): %w", e.max, e.secure, err)
	}
	type dest struct {
		ip    net.IP
		ports [2]int
	}
	var dmu sync.Mutex
	var dests []dest
	m.rd, err = m.bd.NewReader(bed.ReaderCfg{Proto: "udp", Timeout: 60 * time.Second, Extra: func(c *gortsplib.Client) {
		p := gortsplib.ProtocolUDPMulticast
		c.Protocol = &p
		gortsplib.VerifSetClientKnobs(c, nil, time.Hour, time.Hour, 0) // no receiver reports towards the group
		prev := c.OnResponse
		c.OnResponse = func(res *base.Response) {
			if prev != nil {
				prev(res)
			}
			var th headers.Transport
			if v, ok := res.Header["Transport"]; ok && th.Unmarshal(v) == nil &&
				th.Delivery != nil && *th.Delivery == headers.TransportDeliveryMulticast &&
				th.Destination2 != nil && th.Ports != nil {
				if ip := net.ParseIP(*th.Destination2); ip != nil {
					dmu.Lock()
					dests = append(dests, dest{ip, *th.Ports})
					dmu.Unlock()
				}
			}
		}
	}}, "stream", func(*description.Media, format.Format, *rtp.Packet) {})
	if err != nil {
		return nil, fmt.Errorf("c18: multicast reader (max=%d secure=%v): %w", e.max, e.secure, err)
	}
	dmu.Lock()
	ds := append([]dest(nil), dests...)
	dmu.Unlock()
	if len(ds) != len(m.bd.Desc.Medias) {
		return nil, fmt.Errorf("c18: %d multicast destinations announced for %d medias", len(ds), len(m.bd.Desc.Medias))
	}
	rec := m.tap.PacketConn(c18discard{})
	for _, d := range ds {
		for _, port := range d.ports {
			pc, jerr := c18join(d.ip, port)
			if jerr != nil {
				return nil, fmt.Errorf("c18: observing %s:%d: %w", d.ip, port, jerr)
			}
			m.conns = append(m.conns, pc)
			go func(pc net.PacketConn, dst *net.UDPAddr) {
				buf := make([]byte, 1<<16)
				for {
					n, _, rerr := pc.ReadFrom(buf)
					if rerr != nil {
						return
					}
					_, _ = rec.WriteTo(buf[:n], dst)
				}
			}(pc, &net.UDPAddr{IP: d.ip, Port: port})
		}
	}
	if _, err = m.rd.C.Play(nil); err != nil {
		return nil, fmt.Errorf("c18: multicast play (max=%d secure=%v): %w", e.max, e.secure, err)
	}
	// calibration: how many datagrams does one write produce (RTP and RTCP, both medias)?
	rng := rand.New(rand.NewSource(1))
	for mi, medi := range m.bd.Desc.Medias {
		for _, kind := range []string{"rtp", "rtcp"} {
			pre := m.tap.Len()
			var werr error
			if kind == "rtp" {
				e.seq[mi]++
				pkt, _ := c18rtp(20, uint8(96+mi), "payload", e.seq[mi], uint32(e.seq[mi])*3000, rng)
				werr = m.bd.Stream.WritePacketRTP(medi, pkt)
			} else {
				werr = m.bd.Stream.WritePacketRTCP(medi, &rtcp.ReceiverReport{SSRC: 0x0BADCAFE})
			}
			if werr != nil {
				return nil, fmt.Errorf("c18: multicast calibration write (%s, media %d): %w", kind, mi, werr)
			}
			c18wait(m.tap, pre, 1, 2*time.Second)
			time.Sleep(30 * time.Millisecond) // further copies, if any
			n := m.tap.Len() - pre
			if n == 0 {
				return nil, fmt.Errorf("c18: multicast datagrams (%s, media %d) are not observable on this host", kind, mi)
			}
			if m.copies != 0 && n != m.copies {
				return nil, fmt.Errorf("c18: multicast calibration: %d copies, then %d", m.copies, n)
			}
			m.copies = n
		}
	}
	e.accounted[m.tap] = m.tap.Len()
	e.mc = m
	return m, nil
}

func (e *c18env) reader(proto string) (*c18reader, error) {
	if r := e.readers[proto]; r != nil {
		return r, nil
	}
	rd, err := e.bd.NewReader(bed.ReaderCfg{Proto: proto, Timeout: 60 * time.Second}, "stream",
		func(*description.Media, format.Format, *rtp.Packet) {})
	if err != nil {
		return nil, fmt.Errorf("c18: reader %s (max=%d secure=%v): %w", proto, e.max, e.secure, err)
	}
	r := &c18reader{rd: rd, ss: e.bd.LastSession()}
	e.readers[proto] = r
	if _, err := rd.C.Play(nil); err != nil {
		return nil, fmt.Errorf("c18: play %s (max=%d secure=%v): %w", proto, e.max, e.secure, err)
	}
	e.settle()
	return r, nil
}

func (e *c18env) publisher(proto string) (*c18pub, error) {
	if p := e.pubs[proto]; p != nil {
		if !p.dead.Load() {
			return p, nil
		}
		e.st.reconnects.Add(1)
		fmt.Fprintf(os.Stderr, "c18: publisher %s (max=%d secure=%v mki=%v) terminated: %v; reconnecting\n",
			proto, e.max, e.secure, e.mki, p.reason.Load())
		p.c.Close()
		delete(e.pubs, proto)
	}
	p := &c18pub{desc: bed.DefaultDesc(2), tap: bed.NewTap()}
	if e.secure {
		// over TCP + RTSPS the client only uses SRTP when the announced medias ask for it
		for _, m := range p.desc.Medias {
			m.Profile = headers.TransportProfileSAVP
		}
	}
	c := &gortsplib.Client{ReadTimeout: 10 * time.Second, WriteTimeout: 10 * time.Second,
		MaxPacketSize: e.max, DisableRTCPSenderReports: true}
	tp := gortsplib.ProtocolTCP
	if proto == "udp" {
		tp = gortsplib.ProtocolUDP
	}
	c.Protocol = &tp
	c.ListenPacket = p.tap.ListenPacket
	c.DialContext = func(ctx context.Context, network, addr string) (net.Conn, error) {
		nc, err := (&net.Dialer{}).DialContext(ctx, network, addr)
		if err != nil {
			return nil, err
		}
		return p.tap.Conn(nc), nil
	}
	if e.secure {
		c.TLSConfig = bed.ClientTLS()
		c.DialTLSContext = func(ctx context.Context, network, addr string) (net.Conn, error) {
			nc, err := (&tls.Dialer{Config: bed.ClientTLS()}).DialContext(ctx, network, addr)
			if err != nil {
				return nil, err
			}
			return p.tap.Conn(nc), nil // clear-text side
		}
	}
	c.OnDecodeError = func(error) {}
	c.OnPacketsLost = func(uint64) {}
	gortsplib.VerifSetClientKnobs(c, nil, time.Hour, time.Hour, 0)
	e.recMu.Lock()
	e.lastRec = nil
	e.recMu.Unlock()
	if err := c.StartRecording(e.bd.URL("pub-"+proto), p.desc); err != nil {
		return nil, fmt.Errorf("c18: StartRecording %s (max=%d secure=%v mki=%v): %w", proto, e.max, e.secure, e.mki, err)
	}
	p.c = c
	e.recMu.Lock()
	p.ss = e.lastRec
	e.recMu.Unlock()
	if p.ss == nil {
		c.Close()
		return nil, fmt.Errorf("c18: no record session for publisher %s", proto)
	}
	go func() {
		err := c.Wait()
		p.reason.Store(fmt.Sprint(err))
		p.dead.Store(true)
	}()
	e.pubs[proto] = p
	e.settle(p.tap)
	return p, nil
}

// backchannel returns the group's reading client over proto that plays the stream of the second
// server and writes on its back channel (started on first use, replaced when it terminated).
func (e *c18env) backchannel(proto string) (*c18bc, error) {
	if b := e.bcs[proto]; b != nil {
		if !b.dead.Load() {
			return b, nil
		}
		e.st.reconnects.Add(1)
		fmt.Fprintf(os.Stderr, "c18: back-channel client %s (max=%d secure=%v mki=%v) terminated: %v; reconnecting\n",
			proto, e.max, e.secure, e.mki, b.reason.Load())
		b.rd.Close()
		delete(e.bcs, proto)
	}
	if e.bcBed == nil {
		cfg := bed.ServerCfg{UDP: true, MaxPacketSize: e.max, Medias: 2, BackChannel: 3, ReportPeriod: time.Hour,
			ReadTimeout: 120 * time.Second}
		if e.secure {
			cfg.TLS = bed.SelfSignedTLS()
		}
		cfg.Extra = func(sv *gortsplib.Server) {
			sv.DisableRTCPSenderReports = true
			if e.mki {
				if _, ok := sv.Handler.(*c18handler); !ok {
					sv.Handler = &c18handler{inner: sv.Handler, refused: map[*gortsplib.ServerSession]bool{}}
				}
			}
		}
		bd, err := bed.Start(cfg)
		if err != nil {
			return nil, fmt.Errorf("c18: back-channel server (max=%d secure=%v mki=%v): %w", e.max, e.secure, e.mki, err)
		}
		e.bcBed = bd
	}
	b := &c18bc{tap: bed.NewTap()}
	rd, err := e.bcBed.NewReader(bed.ReaderCfg{Proto: proto, Timeout: 120 * time.Second, Extra: func(c *gortsplib.Client) {
		c.RequestBackChannels = true
		c.MaxPacketSize = e.max
		c.DisableRTCPSenderReports = true
		// nothing is ever sent to this client: the UDP timeout of a reader must not end it
		c.InitialUDPReadTimeout = time.Hour
		c.ListenPacket = b.tap.ListenPacket
		c.DialContext = func(ctx context.Context, network, addr string) (net.Conn, error) {
			nc, err := (&net.Dialer{}).DialContext(ctx, network, addr)
			if err != nil {
				return nil, err
			}
			return b.tap.Conn(nc), nil
		}
		if e.secure {
			c.DialTLSContext = func(ctx context.Context, network, addr string) (net.Conn, error) {
				nc, err := (&tls.Dialer{Config: bed.ClientTLS()}).DialContext(ctx, network, addr)
				if err != nil {
					return nil, err
				}
				return b.tap.Conn(nc), nil // clear-text side
			}
		}
		gortsplib.VerifSetClientKnobs(c, nil, time.Hour, time.Hour, 0)
	}}, "stream", nil)
	if err != nil {
		return nil, fmt.Errorf("c18: back-channel reader %s (max=%d secure=%v mki=%v): %w", proto, e.max, e.secure, e.mki, err)
	}
	b.rd = rd
	for i, m := range rd.Desc.Medias {
		if m.IsBackChannel {
			b.medi, b.medIdx, b.pt = m, i, m.Formats[0].PayloadType()
		}
	}
	if b.medi == nil {
		rd.Close()
		return nil, fmt.Errorf("c18: the description given to the back-channel reader %s has no back channel", proto)
	}
	if _, err := rd.C.Play(nil); err != nil {
		rd.Close()
		return nil, fmt.Errorf("c18: back-channel play %s (max=%d secure=%v mki=%v): %w", proto, e.max, e.secure, e.mki, err)
	}
	go func() {
		err := rd.C.Wait()
		b.reason.Store(fmt.Sprint(err))
		b.dead.Store(true)
	}()
	if e.bcs == nil {
		e.bcs = map[string]*c18bc{}
	}
	e.bcs[proto] = b
	e.settle(b.tap) // the client's own hole-punching packets (UDP, regular medias) were sent before PLAY
	return b, nil
}

// settle lets the packets that belong to session establishment (the server's UDP hole-punching
// packets after RECORD, 12 bytes of RTP / an empty receiver report per port) pass before any
// write is measured: they are not late packets of a write.
func (e *c18env) settle(taps ...*bed.Tap) {
	time.Sleep(10 * time.Millisecond)
	for _, t := range append(taps, e.srvTap) {
		e.accounted[t] = t.Len()
	}
}

func c18wait(tap *bed.Tap, pre, expect int, d time.Duration) {
	deadline := time.Now().Add(d)
	for {
		if expect > 0 && tap.Len()-pre >= expect {
			return
		}
		rem := time.Until(deadline)
		if rem <= 0 {
			return
		}
		if rem > 2*time.Millisecond {
			rem = 2 * time.Millisecond
		}
		select {
		case <-tap.Notify():
		case <-time.After(rem):
		}
	}
}

func (e *c18env) runScn(sc *c18scn, s *vt.Sink) (tr *vt.Trace, err error) {
	for _, c := range sc.Cases {
		if c.Shape == "" { // a descriptor without shapes: sample them
			sc.Cases = c18shapeCases(sc.Cases, sc.Seed, false)
			break
		}
	}
	desc, _ := json.Marshal(sc)
	class, hdr := "c18/"+sc.Entry, []any{"max", sc.Max, "secure", sc.Secure, "mki", sc.MKI, "transport", sc.Transport}
	if sc.Via != "" {
		if sc.Via != c18viaBC || sc.Entry != "client" {
			return s.Begin(class, string(desc)), fmt.Errorf("c18: via %q is not known for entry %q", sc.Via, sc.Entry)
		}
		class, hdr = class+"-"+sc.Via, append(hdr, "via", sc.Via)
	}
	tr = s.Begin(class, string(desc), hdr...)
	defer func() {
		if p := recover(); p != nil {
			tr.Emit("panic", "why", fmt.Sprint(p))
		}
	}()
	rng := rand.New(rand.NewSource(sc.Seed))
	if sc.Entry == "stream" || sc.Entry == "session" {
		protos := []string{sc.Transport}
		if sc.Entry == "stream" {
			protos = []string{"udp", "tcp"}
		}
		for _, p := range protos {
			if _, err := e.reader(p); err != nil {
				return tr, err
			}
		}
	}
	for i, cs := range sc.Cases {
		mi := (i / 2) % 2 // media: 0 = H264 (96), 1 = Opus (97)
		var tap *bed.Tap
		expect := 1
		var call func() error
		var plain int
		var shape string

		var rtpPkt *rtp.Packet
		var rtcpPkt rtcp.Packet
		seqp, pt := &e.seq[mi], uint8(96+mi)
		var bc *c18bc
		if sc.Via == c18viaBC {
			var berr error
			if bc, berr = e.backchannel(sc.Transport); berr != nil {
				return tr, berr
			}
			seqp, pt, mi = &bc.seq, bc.pt, bc.medIdx
		}
		if cs.Kind == "rtp" {
			*seqp++
			rtpPkt, shape = c18rtp(cs.Plain, pt, cs.Shape, *seqp, uint32(*seqp)*3000, rng)
			plain = rtpPkt.MarshalSize()
		} else {
			rtcpPkt, plain, shape = c18rtcp(cs.Plain, cs.Shape, cs.Round, rng)
		}
		e.st.addShape(cs.Kind, shape)
		if shape != cs.Shape {
			e.st.reshaped.Add(1)
		}

		switch sc.Entry {
		case "stream":
			tap, expect = e.srvTap, 2
			medi := e.bd.Desc.Medias[mi]
			if rtpPkt != nil {
				call = func() error { return e.bd.Stream.WritePacketRTP(medi, rtpPkt) }
			} else {
				call = func() error { return e.bd.Stream.WritePacketRTCP(medi, rtcpPkt) }
			}
		case "session":
			tap = e.srvTap
			if rtpPkt != nil {
				// the reader's play session
				r, rerr := e.reader(sc.Transport)
				if rerr != nil {
					return tr, rerr
				}
				medi := e.bd.Desc.Medias[mi]
				call = func() error { return r.ss.WritePacketRTP(medi, rtpPkt) }
			} else {
				// the server side of the publisher's record session
				p, perr := e.publisher(sc.Transport)
				if perr != nil {
					return tr, perr
				}
				medi := p.ss.AnnouncedDescription().Medias[mi]
				call = func() error { return p.ss.WritePacketRTCP(medi, rtcpPkt) }
			}
		case "multicast":
			m, merr := e.multicast()
			if merr != nil {
				return tr, merr
			}
			tap, expect = m.tap, m.copies
			medi := m.bd.Desc.Medias[mi]
			if rtpPkt != nil {
				call = func() error { return m.bd.Stream.WritePacketRTP(medi, rtpPkt) }
			} else {
				call = func() error { return m.bd.Stream.WritePacketRTCP(medi, rtcpPkt) }
			}
		case "client":
			if bc != nil { // a reading client's back channel
				tap = bc.tap
				if rtpPkt != nil {
					call = func() error { return bc.rd.C.WritePacketRTP(bc.medi, rtpPkt) }
				} else {
					call = func() error { return bc.rd.C.WritePacketRTCP(bc.medi, rtcpPkt) }
				}
				break
			}
			p, perr := e.publisher(sc.Transport)
			if perr != nil {
				return tr, perr
			}
			tap = p.tap
			medi := p.desc.Medias[mi]
			if rtpPkt != nil {
				call = func() error { return p.c.WritePacketRTP(medi, rtpPkt) }
			} else {
				call = func() error { return p.c.WritePacketRTCP(medi, rtcpPkt) }
			}
		default:
			return tr, fmt.Errorf("c18: unknown entry %q", sc.Entry)
		}

		pre := tap.Len()
		late := pre - e.accounted[tap] // packets that appeared after the previous write was accounted for
		lateMax := 0
		if late > 0 {
			e.st.late.Add(int64(late))
			for _, r := range tap.Since(e.accounted[tap])[:late] {
				if r.Size > lateMax {
					lateMax = r.Size
				}
			}
		}
		werr := call()
		failed := werr != nil
		if failed {
			c18wait(tap, pre, 0, c18waitFailed)
		} else {
			c18wait(tap, pre, expect, c18waitSent)
		}
		recs := tap.Since(pre)
		e.accounted[tap] = pre + len(recs)
		nudp, ntcp, maxwire, maxwritten, trunc := 0, 0, 0, 0, false
		for _, r := range recs {
			if r.Size > maxwritten {
				maxwritten = r.Size
			}
			if r.UDP {
				nudp++
			} else {
				ntcp++
			}
			sz := r.Size
			if r.Declared != r.Size {
				trunc = true
				if r.Declared > sz {
					sz = r.Declared
				}
			}
			if sz > maxwire {
				maxwire = sz
			}
		}
		errs := ""
		if failed {
			errs = werr.Error()
			if len(errs) > 80 {
				errs = errs[:80]
			}
		}
		ev := []any{"entry", sc.Entry, "kind", cs.Kind, "secure", sc.Secure, "max", sc.Max, "plain", plain,
			"failed", failed, "nwire", len(recs), "maxwire", maxwire,
			"tr", sc.Transport, "mki", sc.MKI, "req", cs.Plain, "shape", shape, "reqshape", cs.Shape, "round", cs.Round, "medi", mi,
			"nudp", nudp, "ntcp", ntcp, "trunc", trunc, "maxwritten", maxwritten, "late", late, "latemax", lateMax, "err", errs}
		if sc.Via != "" {
			ev = append(ev, "via", sc.Via)
		}
		tr.Emit("write", ev...)

		e.st.writes.Add(1)
		if bc != nil {
			e.st.bcWrites.Add(1)
			if !failed && len(recs) > 0 {
				e.st.bcSent.Add(1)
			}
		}
		if sc.Entry == "multicast" {
			e.st.mcast.Add(1)
			if !failed && len(recs) > 0 {
				e.st.mcastSent.Add(1)
			}
		}
		if failed {
			e.st.failed.Add(1)
		} else {
			e.st.sent.Add(1)
			if len(recs) < expect {
				e.st.noshow.Add(1)
			}
		}
		if trunc {
			e.st.trunc.Add(1)
		}
		if len(recs) > 0 && maxwire > sc.Max {
			e.st.over.Add(1)
		}
		fits, wire := c18model(cs, plain)
		if failed == fits || (!failed && len(recs) > 0 && maxwire != wire) {
			what := "wire"
			if failed == fits {
				what = "decision"
			}
			ent := sc.Entry
			if sc.Via != "" {
				ent += "-" + sc.Via
			}
			e.st.addDrift(fmt.Sprintf("%s/%s/secure=%v/mki=%v/%s", ent, cs.Kind, sc.Secure, sc.MKI, what),
				fmt.Sprintf("max=%d plain=%d %s %s: model fits=%v wire=%d, real failed=%v nwire=%d maxwire=%d",
					sc.Max, plain, sc.Transport, shape, fits, wire, failed, len(recs), maxwire))
		}
	}
	tr.Emit("end")
	return tr, nil
}

// c18probe answers, on stdout only, why entry "session" / kind "rtp" uses a play session.
func c18probe(sc *c18scn) (err error) {
	if sc.Probe != "record_rtp" {
		return fmt.Errorf("c18: unknown probe %q", sc.Probe)
	}
	e := &c18env{max: 1472, srvTap: bed.NewTap(), readers: map[string]*c18reader{}, pubs: map[string]*c18pub{},
		accounted: map[*bed.Tap]int{}, st: &c18stats{}}
	e.bd, err = bed.Start(bed.ServerCfg{UDP: true, Medias: 2})
	if err != nil {
		return err
	}
	defer e.bd.Close()
	e.bd.OnRecordHook = func(ctx *gortsplib.ServerHandlerOnRecordCtx) {
		e.recMu.Lock()
		e.lastRec = ctx.Session
		e.recMu.Unlock()
	}
	p, err := e.publisher("tcp")
	if err != nil {
		return err
	}
	defer p.c.Close()
	defer func() {
		if r := recover(); r != nil {
			fmt.Printf("PROBE record_rtp: ServerSession.WritePacketRTP on a record session PANICS: %v\n", r)
		}
	}()
	werr := p.ss.WritePacketRTP(p.ss.AnnouncedDescription().Medias[0],
		func() *rtp.Packet { p, _ := c18rtp(100, 96, "payload", 1, 3000, rand.New(rand.NewSource(1))); return p }())
	fmt.Printf("PROBE record_rtp: ServerSession.WritePacketRTP on a record session returned: %v\n", werr)
	return nil
}
