package main

// C10 driver: authentication is complete and sound.
//
// Part 1 ("c10/verify"): every case enumerated by TLC from the Level B model
// (spec/Auth.tla: challenge order x scheme used by the client x one perturbation)
// is replayed on the REAL auth.GenerateWWWAuthenticate / auth.Sender /
// headers.Authorization / auth.Verify for several concretizations (users,
// passwords - among them passwords containing ':' -, realms, nonces, URLs). The
// request travels through base.Request.Marshal / Unmarshal before it is verified.
// Event: verify{sent, pert, enabledHas, accepted, pw, why}.
//
// Part 2 ("c10/wire"): a real gortsplib.Server (internal/bed) whose handlers call
// ServerConn.VerifyCredentials, one server per challenge order, and a raw peer
// that sends no / right / wrong credentials built by the real auth.Sender from
// the server's own WWW-Authenticate. Event: wire{creds, status, kept, pw, why}.
//
// The driver records what the code did; the model's prediction is only used for
// the drift counter.

import (
	"bufio"
	"bytes"
	"encoding/json"
	"fmt"
	"math/rand"
	"strconv"
	"strings"
	"sync"
	"time"

	"github.com/bluenviron/gortsplib/v5"
	"github.com/bluenviron/gortsplib/v5/pkg/auth"
	"github.com/bluenviron/gortsplib/v5/pkg/base"
	"github.com/bluenviron/gortsplib/v5/pkg/headers"

	"verifharness/internal/bed"
	"verifharness/internal/vt"
)

func init() { drivers["c10"] = driveC10 }

// c10case is one TLC case and, at the same time, the replay descriptor.
type c10case struct {
	Order  []string `json:"order"`
	Sent   string   `json:"sent,omitempty"`
	Pert   string   `json:"pert,omitempty"`
	Chosen string   `json:"chosen,omitempty"`
	Accept bool     `json:"accept"`
	Seed   int64    `json:"seed"`
	Picks  int      `json:"picks,omitempty"` // verify: concretizations (0: the whole password pool, twice)
	Wire   bool     `json:"wire,omitempty"`  // wire scenario (Part 2)
	Pw     int      `json:"pw,omitempty"`    // wire: index of the right password
}

var c10users = []string{"admin", "user-01", "cam user", "Ünal", "readuser", `WORKGROUP\operator`, "semi;colon=eq,comma", " padded "}

var c10passwords = []string{
	"secret",                   // 0
	"pa:ss",                    // 1
	":x",                       // 2
	"a::b",                     // 3
	"with some spaces",         // 4
	"pässwörd",                 // 5
	strings.Repeat("Lg9_", 64), // 6 (256 characters)
	"",                         // 7
	"p@ss/w0rd=+,;",            // 8
	"trailing:",                // 9
	"x y:z",                    // 10
	"ends with a space ",       // 11
	" starts with one",         // 12
}

var c10realms = []string{"IP Camera(1234)", "ipcam", "Realm, with=comma", "réalm 2", `DOMAIN\cams`}

var c10streams = []string{
	"rtsp://127.0.0.1:8554/cam/stream?x=1&y=2",
	"rtsp://127.0.0.1:8554/stream",
	"rtsp://192.168.1.10/a/b/c/live.sdp",
	"rtsp://[::1]:8554/cam?token=abc%20def",
	"rtsp://cam.example.com:554/Streaming/Channels/101?transportmode=unicast&profile=Profile_1",
}

func c10why(pass string) string {
	switch {
	case strings.Contains(pass, ":"):
		return "pass_with_colon"
	case pass == "":
		return "pass_empty"
	case len(pass) > 64:
		return "pass_long"
	case strings.HasPrefix(pass, " ") || strings.HasSuffix(pass, " "):
		return "pass_outer_space"
	case strings.Contains(pass, " "):
		return "pass_with_space"
	case strings.IndexFunc(pass, func(r rune) bool { return r > 127 }) >= 0:
		return "pass_unicode"
	case strings.ContainsAny(pass, "@/=+,;"):
		return "pass_symbols"
	}
	return "plain"
}

func c10methods(order []string) ([]auth.VerifyMethod, error) {
	var out []auth.VerifyMethod
	for _, o := range order {
		switch o {
		case "basic":
			out = append(out, auth.VerifyMethodBasic)
		case "md5":
			out = append(out, auth.VerifyMethodDigestMD5)
		case "sha256":
			out = append(out, auth.VerifyMethodDigestSHA256)
		default:
			return nil, fmt.Errorf("c10: unknown method %q", o)
		}
	}
	return out, nil
}

// c10challenge is the challenge for one scheme, built exactly as GenerateWWWAuthenticate does.
func c10challenge(scheme, realm, nonce string) base.HeaderValue {
	switch scheme {
	case "basic":
		return headers.Authenticate{Method: headers.AuthMethodBasic, Realm: realm}.Marshal()
	case "md5":
		aa := headers.AuthAlgorithmMD5
		return headers.Authenticate{Method: headers.AuthMethodDigest, Realm: realm, Nonce: nonce, Algorithm: &aa}.Marshal()
	}
	aa := headers.AuthAlgorithmSHA256
	return headers.Authenticate{Method: headers.AuthMethodDigest, Realm: realm, Nonce: nonce, Algorithm: &aa}.Marshal()
}

// c10scheme names the scheme of an Authorization header value.
func c10scheme(v base.HeaderValue) string {
	if len(v) != 1 {
		return "?"
	}
	if strings.HasPrefix(v[0], "Basic ") {
		return "basic"
	}
	var h headers.Authorization
	if err := h.Unmarshal(v); err != nil || h.Method != headers.AuthMethodDigest {
		return "?"
	}
	if h.Algorithm != nil && *h.Algorithm == headers.AuthAlgorithmSHA256 {
		return "sha256"
	}
	return "md5"
}

// c10overWire sends the request through the RTSP text encoding, as a server would receive it.
func c10overWire(req *base.Request) (*base.Request, error) {
	req.Header["CSeq"] = base.HeaderValue{"1"}
	byts, err := req.Marshal()
	if err != nil {
		return nil, err
	}
	var out base.Request
	if err = out.Unmarshal(bufio.NewReader(bytes.NewReader(byts))); err != nil {
		return nil, err
	}
	return &out, nil
}

func c10has(order []string, s string) bool {
	for _, o := range order {
		if o == s {
			return true
		}
	}
	return false
}

// c10conc is one concretization of the symbolic inputs of a case.
type c10conc struct {
	user, user2   int
	pw, pw2       int
	realm, realm2 int
	stream        int
	other         int // kind of "other" URL
}

func c10differ(rng *rand.Rand, i, n int) int { return (i + 1 + rng.Intn(n-1)) % n }

func c10concs(rng *rand.Rand, picks int) []c10conc {
	var pws []int
	if picks > 0 {
		pws = rng.Perm(len(c10passwords))
		if picks < len(pws) {
			pws = pws[:picks]
		}
	} else {
		for r := 0; r < 2; r++ {
			for i := range c10passwords {
				pws = append(pws, i)
			}
		}
	}
	out := make([]c10conc, len(pws))
	for i, pw := range pws {
		k := c10conc{pw: pw}
		k.pw2 = c10differ(rng, pw, len(c10passwords))
		k.user = rng.Intn(len(c10users))
		k.user2 = c10differ(rng, k.user, len(c10users))
		k.realm = rng.Intn(len(c10realms))
		k.realm2 = c10differ(rng, k.realm, len(c10realms))
		k.stream = rng.Intn(len(c10streams))
		k.other = rng.Intn(4)
		out[i] = k
	}
	return out
}

func c10other(k c10conc) string {
	stream := c10streams[k.stream]
	switch k.other {
	case 0: // another track of the same stream
		return stream + "/trackID=2"
	case 1: // the track of another stream
		return c10streams[(k.stream+1)%len(c10streams)] + "/trackID=1"
	case 2: // a longer track number
		return stream + "/trackID=11"
	}
	// the stream URL (no trailing slash) - the request is not a SETUP
	return stream
}

// c10verifyOne runs one concretization with the real code and returns the verifier's decision.
func c10verifyOne(c *c10case, methods []auth.VerifyMethod, k c10conc) (accepted bool, why string, err error) {
	user, pass, realm := c10users[k.user], c10passwords[k.pw], c10realms[k.realm]
	nonce, err := auth.GenerateNonce()
	if err != nil {
		return false, "", err
	}
	stream := c10streams[k.stream]
	track := stream + "/trackID=1"

	// the client's view
	cu, cp, cr, cn := user, pass, realm, nonce
	realMethod, cm, curl := base.Describe, base.Describe, track
	switch c.Pert {
	case "none", "alg", "noalg":
	case "user":
		cu = c10users[k.user2]
	case "pass":
		cp = c10passwords[k.pw2]
	case "realm":
		cr = c10realms[k.realm2]
	case "nonce":
		for cn == nonce {
			if cn, err = auth.GenerateNonce(); err != nil {
				return false, "", err
			}
		}
	case "method":
		cm = base.Options
	case "url":
		curl = c10other(k)
	case "setup_base":
		realMethod, cm, curl = base.Setup, base.Setup, stream+"/"
	case "base_nonsetup":
		curl = stream + "/"
	case "setup_other":
		// a SETUP whose authorization was computed for some URL that is neither the track
		// nor the stream's base URL: another stream / track, or a shorter prefix of the base
		realMethod, cm = base.Setup, base.Setup
		u := bed.MustURL(stream)
		switch k.other {
		case 0:
			curl = c10streams[(k.stream+1)%len(c10streams)] + "/"
		case 1:
			curl = u.Scheme + "://" + u.Host + "/"
		case 2:
			curl = stream[:len(stream)-1]
		default:
			curl = stream + "/trackID=2"
		}
	default:
		return false, "", fmt.Errorf("c10: unknown perturbation %q", c.Pert)
	}

	se := &auth.Sender{WWWAuth: c10challenge(c.Sent, cr, cn), User: cu, Pass: cp}
	if err = se.Initialize(); err != nil {
		return false, "", fmt.Errorf("c10: Sender.Initialize on a single challenge: %w", err)
	}
	comp := &base.Request{Method: cm, URL: bed.MustURL(curl), Header: base.Header{}}
	se.AddAuthorization(comp)
	av := comp.Header["Authorization"]
	if c.Pert == "alg" && c.Sent != "basic" {
		var h headers.Authorization
		if err = h.Unmarshal(av); err != nil {
			return false, "", fmt.Errorf("c10: the Sender's own Authorization does not parse: %w", err)
		}
		flipped := headers.AuthAlgorithmSHA256
		if h.Algorithm != nil && *h.Algorithm == headers.AuthAlgorithmSHA256 {
			flipped = headers.AuthAlgorithmMD5
		}
		h.Algorithm = &flipped
		av = h.Marshal()
	}

	if c.Pert == "noalg" && c.Sent != "basic" {
		var h headers.Authorization
		if err = h.Unmarshal(av); err != nil {
			return false, "", fmt.Errorf("c10: the Sender's own Authorization does not parse: %w", err)
		}
		h.Algorithm = nil // left out: reads as MD5
		av = h.Marshal()
	}

	req := &base.Request{Method: realMethod, URL: bed.MustURL(track), Header: base.Header{"Authorization": av}}
	why = c10why(pass)
	got, err := c10overWire(req)
	if err != nil {
		// the request does not survive its own encoding: no server could accept it
		return false, "unreadable_request", nil
	}
	return auth.Verify(got, user, pass, methods, realm, nonce) == nil, why, nil
}

type c10stats struct {
	cases, verifies, wires, drift int
}

// c10verifyCase: one trace with all the concretizations of one TLC case.
func c10verifyCase(c *c10case, s *vt.Sink, st *c10stats) (err error) {
	methods, err := c10methods(c.Order)
	if err != nil {
		return err
	}
	switch c.Sent {
	case "basic", "md5", "sha256":
	default:
		return fmt.Errorf("c10: unknown scheme %q", c.Sent)
	}
	desc, _ := json.Marshal(c)
	tr := s.Begin("c10/verify", string(desc))
	defer tr.End()
	defer func() {
		if p := recover(); p != nil {
			tr.Emit("panic", "why", fmt.Sprint(p))
		}
	}()
	st.cases++
	rng := rand.New(rand.NewSource(c.Seed))

	// drift only: the real Sender, given the server's own header, picks the scheme the model says
	if c.Chosen != "" {
		nonce, _ := auth.GenerateNonce()
		hv := auth.GenerateWWWAuthenticate(methods, c10realms[0], nonce)
		se := &auth.Sender{WWWAuth: hv, User: "u", Pass: "p"}
		got := "?"
		if se.Initialize() == nil {
			r := &base.Request{Method: base.Describe, URL: bed.MustURL(c10streams[0]), Header: base.Header{}}
			se.AddAuthorization(r)
			got = c10scheme(r.Header["Authorization"])
		}
		if got != c.Chosen {
			st.drift++
		}
	}

	enabledHas := c10has(c.Order, c.Sent)
	for _, k := range c10concs(rng, c.Picks) {
		accepted, why, err := c10verifyOne(c, methods, k)
		if err != nil {
			return err
		}
		st.verifies++
		if accepted != c.Accept {
			st.drift++
		}
		tr.Emit("verify", "sent", c.Sent, "pert", c.Pert, "enabledHas", enabledHas, "accepted", accepted,
			"pw", k.pw, "why", why)
	}
	tr.Emit("end")
	return nil
}

// ---- Part 2: real server -------------------------------------------------------

type c10creds struct {
	mu         sync.Mutex
	user, pass string
}

func (c *c10creds) set(u, p string) { c.mu.Lock(); c.user, c.pass = u, p; c.mu.Unlock() }
func (c *c10creds) get() (string, string) {
	c.mu.Lock()
	defer c.mu.Unlock()
	return c.user, c.pass
}

func c10startServer(order []string) (*bed.Bed, *c10creds, error) {
	methods, err := c10methods(order)
	if err != nil {
		return nil, nil, err
	}
	cr := &c10creds{}
	bd, err := bed.Start(bed.ServerCfg{
		Handlers: "all",
		Extra:    func(s *gortsplib.Server) { s.AuthMethods = methods },
		AuthCheck: func(sc *gortsplib.ServerConn, req *base.Request) bool {
			u, p := cr.get()
			return sc.VerifyCredentials(req, u, p)
		},
	})
	if err != nil {
		return nil, nil, err
	}
	return bd, cr, nil
}

// c10wireScenario: (a) no credentials, (b) right credentials on the same connection,
// (c) wrong credentials on a fresh connection (after its own 401).
func c10wireScenario(bd *bed.Bed, cr *c10creds, c *c10case, s *vt.Sink, st *c10stats) {
	desc, _ := json.Marshal(c)
	tr := s.Begin("c10/wire", string(desc))
	defer tr.End()
	defer func() {
		if p := recover(); p != nil {
			tr.Emit("panic", "why", fmt.Sprint(p))
		}
	}()
	rng := rand.New(rand.NewSource(c.Seed))
	pw := c.Pw
	user := c10users[rng.Intn(len(c10users))]
	pass := c10passwords[pw]
	wpw := c10differ(rng, pw, len(c10passwords))
	path := "stream"
	if rng.Intn(2) == 0 {
		path = "cam/stream?x=1&y=2"
	}
	u := bd.URL(path)
	cr.set(user, pass)

	emit := func(creds string, status int, kept bool, pwi int, why string) {
		st.wires++
		tr.Emit("wire", "creds", creds, "status", status, "kept", kept, "pw", pwi, "why", why)
	}
	// kept: a following OPTIONS on the same connection is answered
	kept := func(p *bed.Peer) (bool, bool) {
		res := p.Do(&base.Request{Method: base.Options, URL: bed.MustURL(u), Header: base.Header{}})
		if res.Timeout {
			tr.Emit("hang", "m", "OPTIONS")
			return false, false
		}
		return !res.Closed, true
	}
	// one DESCRIBE; ok = false when the exchange hung
	describe := func(p *bed.Peer, se *auth.Sender) (status int, wwwAuth base.HeaderValue, ok bool) {
		req := &base.Request{Method: base.Describe, URL: bed.MustURL(u), Header: base.Header{"Accept": base.HeaderValue{"application/sdp"}}}
		if se != nil {
			se.AddAuthorization(req)
		}
		res := p.Do(req)
		if res.Timeout {
			tr.Emit("hang", "m", "DESCRIBE")
			return 0, nil, false
		}
		if res.Closed || res.Res == nil {
			return 0, nil, true
		}
		return int(res.Res.StatusCode), res.Res.Header["WWW-Authenticate"], true
	}
	// without credentials, on a new connection; returns the peer if the conversation can go on
	challenge := func() (*bed.Peer, base.HeaderValue) {
		p, err := bd.Dial()
		if err != nil {
			tr.Emit("dial_failed")
			return nil, nil
		}
		p.Timeout = 3 * time.Second
		status, wa, ok := describe(p, nil)
		if !ok {
			p.Close()
			return nil, nil
		}
		k, ok := kept(p)
		if !ok {
			p.Close()
			return nil, nil
		}
		emit("none", status, k, -1, "plain")
		if !k {
			p.Close()
			return nil, nil
		}
		return p, wa
	}
	with := func(p *bed.Peer, wa base.HeaderValue, creds, pass string, pwi int) {
		se := &auth.Sender{WWWAuth: wa, User: user, Pass: pass}
		if err := se.Initialize(); err != nil {
			// the real client cannot use the real server's challenge
			emit(creds, 0, true, pwi, "sender_init_failed")
			return
		}
		status, _, ok := describe(p, se)
		if !ok {
			return
		}
		k, ok := kept(p)
		if !ok {
			return
		}
		emit(creds, status, k, pwi, c10why(pass))
	}

	if p, wa := challenge(); p != nil {
		with(p, wa, "right", pass, pw)
		p.Close()
	}
	if p, wa := challenge(); p != nil {
		with(p, wa, "wrong", c10passwords[wpw], wpw)
		p.Close()
	}
	// (d) an authorization that was accepted once, attached unchanged to ANOTHER request of the
	// same connection: a Digest one was computed for the first request's method and URL
	replay := func(kind string) {
		p, wa := challenge()
		if p == nil {
			return
		}
		defer p.Close()
		se := &auth.Sender{WWWAuth: wa, User: user, Pass: pass}
		if se.Initialize() != nil {
			return
		}
		first := &base.Request{Method: base.Describe, URL: bed.MustURL(u), Header: base.Header{"Accept": base.HeaderValue{"application/sdp"}}}
		se.AddAuthorization(first)
		res := p.Do(first)
		if res.Timeout || res.Closed || res.Res == nil || res.Res.StatusCode != base.StatusOK {
			return // (reported by scenario b)
		}
		hv := first.Header["Authorization"]
		var req *base.Request
		switch kind {
		case "replay_url":
			req = &base.Request{Method: base.Describe, URL: bed.MustURL(bd.URL("elsewhere")),
				Header: base.Header{"Accept": base.HeaderValue{"application/sdp"}, "Authorization": hv}}
		default: // replay_method: SETUP of a track of the same URL (the URL passes by the base-URL rule)
			tu := u + "/trackID=0"
			req = &base.Request{Method: base.Setup, URL: bed.MustURL(tu), Header: base.Header{
				"Transport":     base.HeaderValue{"RTP/AVP/TCP;unicast;interleaved=0-1"},
				"Authorization": hv}}
		}
		res = p.Do(req)
		if res.Timeout {
			tr.Emit("hang", "m", kind)
			return
		}
		status := 0
		if !res.Closed && res.Res != nil {
			status = int(res.Res.StatusCode)
		}
		k, ok := kept(p)
		if !ok {
			return
		}
		st.wires++
		tr.Emit("wire", "creds", kind, "status", status, "kept", k, "pw", pw, "why", c10why(pass), "sent", c10scheme(hv))
	}
	replay("replay_url")
	replay("replay_method")

	// (e) many connections authenticating AT THE SAME TIME with the right credentials (server
	// connections verify concurrently, and the clients of one process sign concurrently): every
	// one of their requests must be accepted. Each connection is challenged once and then signs
	// a series of requests (every signature and every verification is computed afresh).
	{
		conns, rounds := 12, 10
		type one struct {
			status int
			kept   bool
		}
		var mu sync.Mutex
		var results []one
		var wg sync.WaitGroup
		start := make(chan struct{})
		for i := 0; i < conns; i++ {
			p, err := bd.Dial()
			if err != nil {
				continue
			}
			p.Timeout = 5 * time.Second
			first := p.Do(&base.Request{Method: base.Describe, URL: bed.MustURL(u), Header: base.Header{"Accept": base.HeaderValue{"application/sdp"}}})
			if first.Res == nil || first.Res.StatusCode != base.StatusUnauthorized {
				p.Close()
				continue
			}
			se := &auth.Sender{WWWAuth: first.Res.Header["WWW-Authenticate"], User: user, Pass: pass}
			if se.Initialize() != nil {
				p.Close()
				continue
			}
			wg.Add(1)
			go func() {
				defer wg.Done()
				defer p.Close()
				<-start
				for r := 0; r < rounds; r++ {
					req := &base.Request{Method: base.Describe, URL: bed.MustURL(u), Header: base.Header{"Accept": base.HeaderValue{"application/sdp"}}}
					se.AddAuthorization(req)
					res := p.Do(req)
					if res.Timeout {
						tr.Emit("hang", "m", "DESCRIBE")
						return
					}
					o := one{kept: !res.Closed}
					if res.Res != nil {
						o.status = int(res.Res.StatusCode)
					}
					mu.Lock()
					results = append(results, o)
					mu.Unlock()
					if res.Closed {
						return
					}
				}
			}()
		}
		close(start)
		wg.Wait()
		for _, o := range results {
			st.wires++
			tr.Emit("wire", "creds", "right", "status", o.status, "kept", o.kept, "pw", pw, "why", "concurrent")
		}
	}
	tr.Emit("end")
}

func c10orderKey(o []string) string { return strings.Join(o, ",") }

func driveC10(a *args, s *vt.Sink) error {
	st := &c10stats{}
	defer func() {
		fmt.Printf("DRIVER-STAT cases=%d verifies=%d wires=%d\n", st.cases, st.verifies, st.wires)
		fmt.Printf("DRIVER-STAT model_drift=%d\n", st.drift)
	}()

	if a.replay != "" {
		var c c10case
		if err := json.Unmarshal([]byte(a.replay), &c); err != nil {
			return err
		}
		if !c.Wire {
			return c10verifyCase(&c, s, st)
		}
		bd, cr, err := c10startServer(c.Order)
		if err != nil {
			return err
		}
		defer bd.Close()
		c10wireScenario(bd, cr, &c, s, st)
		return nil
	}

	if a.in == "" {
		return fmt.Errorf("c10 needs -in (cases generated by TLC from spec/Auth.tla)")
	}
	lines, err := readLines(a.in)
	if err != nil {
		return err
	}
	thorough := a.tier == "thorough"

	// ---- Part 1 ----
	var orders [][]string
	seen := map[string]bool{}
	for i, line := range lines {
		// tolerate the raw dump form: /\ beh = "<json string literal>"
		line = strings.TrimPrefix(line, `/\ beh = `)
		if strings.HasPrefix(line, `"`) {
			if uq, err := strconv.Unquote(line); err == nil {
				line = uq
			}
		}
		if line == "" {
			continue // the initial state
		}
		var c c10case
		if err := json.Unmarshal([]byte(line), &c); err != nil {
			return fmt.Errorf("c10: case %d: %w", i+1, err)
		}
		if k := c10orderKey(c.Order); len(c.Order) > 0 && !seen[k] {
			seen[k] = true
			orders = append(orders, c.Order)
		}
		c.Seed = a.seed*1000003 + int64(i)
		c.Picks = 3
		if thorough {
			c.Picks = 0
		}
		if a.n > 0 {
			c.Picks = a.n
		}
		if err := c10verifyCase(&c, s, st); err != nil {
			return err
		}
	}

	// ---- Part 2 ----
	if !thorough && len(orders) > 4 {
		want := []string{"basic", "md5", "basic,md5", "sha256,md5,basic"}
		var sel [][]string
		for _, w := range want {
			if seen[w] {
				sel = append(sel, strings.Split(w, ","))
			}
		}
		for _, o := range orders {
			if len(sel) >= 4 {
				break
			}
			dup := false
			for _, x := range sel {
				dup = dup || c10orderKey(x) == c10orderKey(o)
			}
			if !dup {
				sel = append(sel, o)
			}
		}
		orders = sel
	}
	var colon []int
	for i, p := range c10passwords {
		if strings.Contains(p, ":") {
			colon = append(colon, i)
		}
	}
	for oi, order := range orders {
		bd, cr, err := c10startServer(order)
		if err != nil {
			return err
		}
		rng := rand.New(rand.NewSource(a.seed*7919 + int64(oi)))
		var pws []int
		if thorough {
			for i := range c10passwords {
				pws = append(pws, i)
			}
		} else {
			pws = []int{0, colon[rng.Intn(len(colon))], rng.Intn(len(c10passwords))}
		}
		for j, pw := range pws {
			c := &c10case{Order: order, Wire: true, Pw: pw, Seed: a.seed*1000003 + int64(oi*100+j)}
			c10wireScenario(bd, cr, c, s, st)
		}
		bd.Close()
	}
	return nil
}
