package main

// C02 (timeout clause) driver: real-time scenarios, run in parallel, each on its own
// server with short timeouts (the code stamps UDP activity with one-second resolution,
// so timeouts are >= 2 s):
//   live    - a library client (its own keep-alives / RTCP / media) plays or records for a
//             while: the session must not expire;
//   silent  - a raw peer sets a session up, starts streaming over UDP and goes silent
//             (connection left open): the session must be closed within
//             timeout + check period (+ 1 s resolution + slack).

import (
	"encoding/json"
	"fmt"
	"math/rand"
	"net"
	"strconv"
	"strings"
	"sync"
	"time"

	"github.com/bluenviron/gortsplib/v5"
	"github.com/bluenviron/gortsplib/v5/pkg/base"
	"github.com/bluenviron/gortsplib/v5/pkg/description"
	"github.com/bluenviron/gortsplib/v5/pkg/format"
	"github.com/bluenviron/gortsplib/v5/pkg/headers"
	"github.com/pion/rtcp"
	"github.com/pion/rtp"

	"verifharness/internal/bed"
	"verifharness/internal/vt"
)

func init() { drivers["c02t"] = driveC02T }

type c02tScn struct {
	// live_play_tcp | live_play_udp | live_record_tcp | live_record_udp | silent_play_udp |
	// silent_record_udp | control_only_play_udp | slow_record_udp (RECORD comes more than a read
	// timeout after ANNOUNCE, media one check period later) | control_options_play_udp (as
	// control_only, with OPTIONS) | reconnect_options_play_udp / reconnect_getparam_play_udp (the
	// control connection is closed after PLAY; keep-alives come from a new connection) | repause_record_udp (RECORD, PAUSE, a
	// pause longer than the read timeout, RECORD, media one check period later) |
	// sparse_play_tcp / sparse_record_tcp (a raw peer over TCP whose signs of life - receiver
	// reports / media - are separated by the gaps of a schedule generated from
	// spec/ConnDeadline.tla, in tenths of T, T the timeout that applies: every gap is shorter
	// than T, but the moments are not multiples of anything the server does)
	Kind   string `json:"kind"`
	IdleMs int    `json:"idle"`
	ReadMs int    `json:"read"`
	PerMs  int    `json:"period"`
	ObsMs  int    `json:"obs"`
	Gaps   []int  `json:"gaps,omitempty"`
}

func driveC02T(a *args, s *vt.Sink) error {
	var scns []c02tScn
	if a.replay != "" {
		var sc c02tScn
		if err := json.Unmarshal([]byte(a.replay), &sc); err != nil {
			return err
		}
		scns = []c02tScn{sc}
	} else {
		kinds := []string{"live_play_tcp", "live_play_udp", "live_record_tcp", "live_record_udp",
			"silent_play_udp", "silent_record_udp", "control_only_play_udp",
			"control_options_play_udp", "reconnect_options_play_udp", "reconnect_getparam_play_udp",
			"slow_record_udp", "repause_record_udp", "silent_play_tcp", "silent_play_tunnel",
			"lapse_play_udp", "lapse_record_udp"}
		grid := [][3]int{{3000, 2000, 200}}
		if a.tier == "thorough" {
			grid = [][3]int{{2000, 2000, 200}, {3000, 2000, 500}, {2000, 3000, 1000}, {6000, 2000, 200}, {7000, 2500, 300}}
		}
		for _, g := range grid {
			for _, k := range kinds {
				scns = append(scns, c02tScn{Kind: k, IdleMs: g[0], ReadMs: g[1], PerMs: g[2], ObsMs: g[0]*2 + 1500})
			}
		}
		// sign-of-life schedules of the connection-deadline model
		if a.in != "" {
			lines, err := readLines(a.in)
			if err != nil {
				return err
			}
			rng := rand.New(rand.NewSource(a.seed))
			rng.Shuffle(len(lines), func(i, j int) { lines[i], lines[j] = lines[j], lines[i] })
			if len(lines) > 160 {
				lines = lines[:160]
			}
			for i, l := range lines {
				var b struct {
					Gaps []int `json:"gaps"`
					T    int   `json:"t"`
				}
				if err := json.Unmarshal([]byte(l), &b); err != nil || b.T != 10 {
					return fmt.Errorf("c02t: bad schedule %q", l)
				}
				g := grid[i%len(grid)]
				for _, k := range []string{"sparse_play_tcp", "sparse_record_tcp"} {
					scns = append(scns, c02tScn{Kind: k, IdleMs: g[0], ReadMs: g[1], PerMs: g[2], Gaps: b.Gaps})
				}
			}
		}
	}
	var wg sync.WaitGroup
	errs := make(chan error, len(scns))
	gate := make(chan struct{}, 72) // scenarios running at the same time
	for i := range scns {
		wg.Add(1)
		gate <- struct{}{}
		go func(sc *c02tScn) {
			defer wg.Done()
			defer func() { <-gate }()
			if err := c02tRun(sc, s); err != nil {
				errs <- err
			}
		}(&scns[i])
	}
	wg.Wait()
	select {
	case err := <-errs:
		return err
	default:
	}
	return nil
}

func c02tRun(sc *c02tScn, s *vt.Sink) error {
	desc, _ := json.Marshal(sc)
	tr := s.Begin("c02t/"+sc.Kind, string(desc))
	defer tr.End()
	bd, err := bed.Start(bed.ServerCfg{UDP: true, Medias: 2,
		IdleTimeout: time.Duration(sc.IdleMs) * time.Millisecond,
		ReadTimeout: time.Duration(sc.ReadMs) * time.Millisecond,
		CheckPeriod: time.Duration(sc.PerMs) * time.Millisecond})
	if err != nil {
		return err
	}
	defer bd.Close()
	closedAt := make(chan time.Time, 4)
	bd.OnSessionCloseHook = func(_ *gortsplib.ServerSession, _ error) {
		select {
		case closedAt <- time.Now():
		default:
		}
	}
	obs := time.Duration(sc.ObsMs) * time.Millisecond
	spec := &bed.PacketSpec{MaxPL: 400}

	switch sc.Kind {
	case "live_play_tcp", "live_play_udp":
		proto := "tcp"
		if sc.Kind == "live_play_udp" {
			proto = "udp"
		}
		rd, err := bd.NewReader(bed.ReaderCfg{Proto: proto, Timeout: 5 * time.Second}, "stream",
			func(_ *description.Media, _ format.Format, _ *rtp.Packet) {})
		if err != nil {
			return fmt.Errorf("c02t %s: %w", sc.Kind, err)
		}
		defer rd.Close()
		if _, err = rd.C.Play(nil); err != nil {
			return fmt.Errorf("c02t %s: play: %w", sc.Kind, err)
		}
		// the stream itself is idle: only the client's own keep-alives / reports keep the session alive
		t0 := time.Now()
		select {
		case <-closedAt:
			tr.Emit("live", "kind", sc.Kind, "ms", int(time.Since(t0).Milliseconds()), "expired", true)
		case <-time.After(obs):
			tr.Emit("live", "kind", sc.Kind, "ms", int(obs.Milliseconds()), "expired", false)
		}
	case "live_record_tcp", "live_record_udp":
		c := &gortsplib.Client{ReadTimeout: 5 * time.Second, WriteTimeout: 5 * time.Second}
		p := gortsplib.ProtocolTCP
		if sc.Kind == "live_record_udp" {
			p = gortsplib.ProtocolUDP
		}
		c.Protocol = &p
		pdesc := bed.DefaultDesc(2)
		if err := c.StartRecording(bd.URL("pub"), pdesc); err != nil {
			return fmt.Errorf("c02t %s: %w", sc.Kind, err)
		}
		defer c.Close()
		t0 := time.Now()
		expired := false
		for i := 1; time.Since(t0) < obs && !expired; i++ {
			c.WritePacketRTP(pdesc.Medias[0], spec.Make(1, i, 96)) // media every 300 ms: a live publisher
			select {
			case <-closedAt:
				expired = true
			case <-time.After(300 * time.Millisecond):
			}
		}
		tr.Emit("live", "kind", sc.Kind, "ms", int(time.Since(t0).Milliseconds()), "expired", expired)
	case "silent_play_udp", "silent_record_udp", "control_only_play_udp", "slow_record_udp", "repause_record_udp",
		"lapse_play_udp", "lapse_record_udp", "control_options_play_udp", "reconnect_options_play_udp", "reconnect_getparam_play_udp":
		peer, err := bd.Dial()
		if err != nil {
			return err
		}
		defer peer.Close()
		peer.Timeout = 3 * time.Second
		url := bd.URL("stream")
		sess := ""
		do := func(req *base.Request) error {
			if sess != "" {
				if req.Header == nil {
					req.Header = base.Header{}
				}
				req.Header["Session"] = base.HeaderValue{sess}
			}
			r := peer.Do(req)
			if r.Res == nil || r.Res.StatusCode != base.StatusOK {
				return fmt.Errorf("c02t %s: %s failed", sc.Kind, req.Method)
			}
			if v, ok := r.Res.Header["Session"]; ok {
				var sh headers.Session
				if sh.Unmarshal(v) == nil {
					sess = sh.Session
				}
			}
			return nil
		}
		// real UDP sockets for the negotiated client ports
		port := bed.FreeUDPPair("127.0.0.1")
		u1, err := net.ListenPacket("udp", net.JoinHostPort("127.0.0.1", strconv.Itoa(port)))
		if err != nil {
			return err
		}
		defer u1.Close()
		u2, err := net.ListenPacket("udp", net.JoinHostPort("127.0.0.1", strconv.Itoa(port+1)))
		if err != nil {
			return err
		}
		defer u2.Close()
		record := sc.Kind == "silent_record_udp" || sc.Kind == "slow_record_udp" || sc.Kind == "repause_record_udp" ||
			sc.Kind == "lapse_record_udp"
		setup := func(track int) error {
			th := headers.Transport{Protocol: headers.TransportProtocolUDP}
			d := headers.TransportDeliveryUnicast
			th.Delivery = &d
			th.ClientPorts = &[2]int{port, port + 1}
			if record {
				m := headers.TransportModeRecord
				th.Mode = &m
			}
			return do(&base.Request{Method: base.Setup, URL: bed.MustURL(fmt.Sprintf("%s/trackID=%d", url, track)),
				Header: base.Header{"Transport": th.Marshal()}})
		}
		var timeout int
		if record {
			if err := do(&base.Request{Method: base.Announce, URL: bed.MustURL(url),
				Header: base.Header{"Content-Type": base.HeaderValue{"application/sdp"}}, Body: []byte(c02sdp(1))}); err != nil {
				return err
			}
			if err := setup(0); err != nil {
				return err
			}
			// a live publisher: media every 250 ms from the negotiated RTP port
			seq := uint16(100)
			media := func() {
				seq++
				pkt := &rtp.Packet{Header: rtp.Header{Version: 2, PayloadType: 96, SequenceNumber: seq,
					Timestamp: uint32(seq) * 3000, SSRC: 0x0C02C02C}, Payload: []byte{0x41, 1, 2, 3}}
				if buf, err := pkt.Marshal(); err == nil {
					u1.WriteTo(buf, &net.UDPAddr{IP: net.ParseIP(bd.IP), Port: bd.UDPPort}) //nolint:errcheck
				}
			}
			keepalive := func(d time.Duration) { // control-path keep-alives while nothing streams
				for t := time.Now(); time.Since(t) < d; {
					time.Sleep(400 * time.Millisecond)
					do(&base.Request{Method: base.GetParameter, URL: bed.MustURL(url)}) //nolint:errcheck
				}
			}
			if sc.Kind == "slow_record_udp" {
				keepalive(time.Duration(sc.ReadMs+600) * time.Millisecond) // a slow handshake
			}
			if err := do(&base.Request{Method: base.Record, URL: bed.MustURL(url)}); err != nil {
				return err
			}
			if sc.Kind == "repause_record_udp" {
				for i := 0; i < 4; i++ {
					media()
					time.Sleep(100 * time.Millisecond)
				}
				if err := do(&base.Request{Method: base.Pause, URL: bed.MustURL(url)}); err != nil {
					return err
				}
				keepalive(time.Duration(sc.ReadMs+600) * time.Millisecond)
				if err := do(&base.Request{Method: base.Record, URL: bed.MustURL(url)}); err != nil {
					return err
				}
			}
			if sc.Kind == "slow_record_udp" || sc.Kind == "repause_record_udp" {
				// the first packet comes a little more than one check period after RECORD - well
				// within the read timeout - and the publisher then keeps sending
				t0 := time.Now()
				time.Sleep(time.Duration(sc.PerMs+150) * time.Millisecond)
				expired := false
				for time.Since(t0) < obs && !expired {
					media()
					select {
					case <-closedAt:
						expired = true
					case <-time.After(250 * time.Millisecond):
					}
				}
				tr.Emit("live", "kind", sc.Kind, "ms", int(time.Since(t0).Milliseconds()), "expired", expired)
				break
			}
			timeout = sc.ReadMs // RECORD over UDP: no packets for ReadTimeout
			if sc.Kind == "lapse_record_udp" {
				// live for a while, THEN silent: the timeout runs from the last packet
				for t := time.Now(); time.Since(t) < time.Duration(sc.ReadMs/2+300)*time.Millisecond; {
					media()
					time.Sleep(200 * time.Millisecond)
				}
			}
		} else {
			if err := setup(0); err != nil {
				return err
			}
			if err := do(&base.Request{Method: base.Play, URL: bed.MustURL(url)}); err != nil {
				return err
			}
			timeout = sc.IdleMs // PLAY over UDP: neither requests nor RTCP for IdleTimeout
			if sc.Kind == "lapse_play_udp" {
				// live on the media path for a while (receiver reports from the negotiated RTCP
				// port), THEN silent on both paths: the timeout runs from the last sign of life
				rr := &rtcp.ReceiverReport{SSRC: 0x0C02C02D}
				for t := time.Now(); time.Since(t) < time.Duration(sc.IdleMs/2+300)*time.Millisecond; {
					if buf, err := rr.Marshal(); err == nil {
						u2.WriteTo(buf, &net.UDPAddr{IP: net.ParseIP(bd.IP), Port: bd.UDPPort + 1}) //nolint:errcheck
					}
					time.Sleep(200 * time.Millisecond)
				}
			}
		}
		t0 := time.Now()
		if strings.HasPrefix(sc.Kind, "reconnect_") {
			// the control connection goes away (a session streaming over UDP survives that) and the
			// peer comes back on a new one, from which it keeps the session alive
			peer.Close()
			p2, err := bd.Dial()
			if err != nil {
				return err
			}
			defer p2.Close()
			p2.Timeout = 3 * time.Second
			peer = p2
		}
		if sc.Kind == "control_only_play_udp" || strings.HasPrefix(sc.Kind, "control_options") || strings.HasPrefix(sc.Kind, "reconnect_") {
			// silent on the media path, alive on the control path: keep-alive requests alone keep it alive
			method := base.GetParameter
			if strings.Contains(sc.Kind, "_options_") {
				method = base.Options
			}
			expired := false
			for time.Since(t0) < obs && !expired {
				if err := do(&base.Request{Method: method, URL: bed.MustURL(url)}); err != nil {
					expired = true
					break
				}
				select {
				case <-closedAt:
					expired = true
				case <-time.After(time.Duration(sc.IdleMs/4) * time.Millisecond):
				}
			}
			tr.Emit("live", "kind", sc.Kind, "ms", int(time.Since(t0).Milliseconds()), "expired", expired)
			break
		}
		// silent: nothing on either path (the control connection stays open)
		limit := time.Duration(timeout+sc.PerMs+1000+3000) * time.Millisecond
		select {
		case at := <-closedAt:
			tr.Emit("silent", "kind", sc.Kind, "timeout", timeout, "period", sc.PerMs, "closed", int(at.Sub(t0).Milliseconds()))
		case <-time.After(limit):
			tr.Emit("silent", "kind", sc.Kind, "timeout", timeout, "period", sc.PerMs, "closed", 1000000)
		}
	case "silent_play_tcp", "silent_play_tunnel":
		// a peer that plays over its (plain or HTTP-tunnelled) control connection and then sends
		// nothing more while keeping it open: the idle timeout of that connection ends the session
		var peer *bed.Peer
		if sc.Kind == "silent_play_tunnel" {
			p, _, _, err := bd.DialTunnelHTTP()
			if err != nil {
				return fmt.Errorf("c02t %s: %w", sc.Kind, err)
			}
			peer = p
		} else {
			p, err := bd.Dial()
			if err != nil {
				return err
			}
			peer = p
		}
		defer peer.Close()
		peer.Timeout = 3 * time.Second
		url := bd.URL("stream")
		th := headers.Transport{Protocol: headers.TransportProtocolTCP, InterleavedIDs: &[2]int{0, 1}}
		d := headers.TransportDeliveryUnicast
		th.Delivery = &d
		r := peer.Do(&base.Request{Method: base.Setup, URL: bed.MustURL(url + "/trackID=0"),
			Header: base.Header{"Transport": th.Marshal()}})
		if r.Res == nil || r.Res.StatusCode != base.StatusOK {
			return fmt.Errorf("c02t %s: SETUP failed", sc.Kind)
		}
		var sh headers.Session
		if err := sh.Unmarshal(r.Res.Header["Session"]); err != nil {
			return fmt.Errorf("c02t %s: no session id", sc.Kind)
		}
		r = peer.Do(&base.Request{Method: base.Play, URL: bed.MustURL(url),
			Header: base.Header{"Session": base.HeaderValue{sh.Session}}})
		if r.Res == nil || r.Res.StatusCode != base.StatusOK {
			return fmt.Errorf("c02t %s: PLAY failed", sc.Kind)
		}
		t0 := time.Now()
		limit := time.Duration(sc.IdleMs+sc.PerMs+1000+3000) * time.Millisecond
		select {
		case at := <-closedAt:
			tr.Emit("silent", "kind", sc.Kind, "timeout", sc.IdleMs, "period", sc.PerMs, "closed", int(at.Sub(t0).Milliseconds()))
		case <-time.After(limit):
			tr.Emit("silent", "kind", sc.Kind, "timeout", sc.IdleMs, "period", sc.PerMs, "closed", 1000000)
		}
	case "sparse_play_tcp", "sparse_record_tcp":
		peer, err := bd.Dial()
		if err != nil {
			return err
		}
		defer peer.Close()
		peer.Timeout = 3 * time.Second
		record := sc.Kind == "sparse_record_tcp"
		url := bd.URL("stream")
		T := time.Duration(sc.IdleMs) * time.Millisecond
		sessHdr := base.Header{}
		if record {
			T = time.Duration(sc.ReadMs) * time.Millisecond
			r := peer.Do(&base.Request{Method: base.Announce, URL: bed.MustURL(url),
				Header: base.Header{"Content-Type": base.HeaderValue{"application/sdp"}}, Body: []byte(c02sdp(1))})
			if r.Res == nil || r.Res.StatusCode != base.StatusOK {
				return fmt.Errorf("c02t %s: ANNOUNCE failed", sc.Kind)
			}
			var ash headers.Session
			if ash.Unmarshal(r.Res.Header["Session"]) == nil {
				sessHdr = base.Header{"Session": base.HeaderValue{ash.Session}}
			}
		}
		th := headers.Transport{Protocol: headers.TransportProtocolTCP, InterleavedIDs: &[2]int{0, 1}}
		d := headers.TransportDeliveryUnicast
		th.Delivery = &d
		if record {
			m := headers.TransportModeRecord
			th.Mode = &m
		}
		sessHdr["Transport"] = th.Marshal()
		r := peer.Do(&base.Request{Method: base.Setup, URL: bed.MustURL(url + "/trackID=0"), Header: sessHdr})
		if r.Res == nil || r.Res.StatusCode != base.StatusOK {
			return fmt.Errorf("c02t %s: SETUP failed", sc.Kind)
		}
		var sh headers.Session
		if err := sh.Unmarshal(r.Res.Header["Session"]); err != nil {
			return fmt.Errorf("c02t %s: no session id", sc.Kind)
		}
		start := base.Play
		if record {
			start = base.Record
		}
		r = peer.Do(&base.Request{Method: start, URL: bed.MustURL(url),
			Header: base.Header{"Session": base.HeaderValue{sh.Session}}})
		if r.Res == nil || r.Res.StatusCode != base.StatusOK {
			return fmt.Errorf("c02t %s: %s failed", sc.Kind, start)
		}
		t0 := time.Now()
		// a sign of life: a receiver report on the RTCP channel, or a media packet
		frame := []byte{'$', 1, 0, 8, 0x80, 0xC9, 0, 1, 0x12, 0x34, 0xAB, 0xCD}
		seq := 0
		sign := func() error {
			if record {
				seq++
				pk, _ := spec.Make(1, seq, 96).Marshal()
				frame = append([]byte{'$', 0, byte(len(pk) >> 8), byte(len(pk))}, pk...)
			}
			peer.N.SetWriteDeadline(time.Now().Add(2 * time.Second)) //nolint:errcheck
			_, err := peer.N.Write(frame)
			return err
		}
		// what the server sends is drained, so that it never blocks on this peer
		go func() {
			buf := make([]byte, 4096)
			for {
				if _, err := peer.N.Read(buf); err != nil {
					return
				}
			}
		}()
		gaps := sc.Gaps
		if len(gaps) == 0 {
			gaps = []int{4, 7, 7}
		}
		last, worst, expired := t0, time.Duration(0), false
		next := t0
		for k := 0; k < len(gaps) && !expired; k++ {
			next = next.Add(T * time.Duration(gaps[k]) / 10)
			select {
			case <-closedAt:
				expired = true
			case <-time.After(time.Until(next)):
				now := time.Now()
				if g := now.Sub(last); g > worst {
					worst = g
				}
				last = now
				if sign() != nil {
					// the server has ended the connection: the close notification follows
					select {
					case <-closedAt:
					case <-time.After(2 * time.Second):
					}
					expired = true
				}
			}
		}
		if !expired {
			// the session is still there half a timeout after the last sign of life
			select {
			case <-closedAt:
				expired = true
			case <-time.After(T / 2):
			}
		}
		if worst > T*85/100 {
			// this peer itself was late (machine load): the premise "keeps sending within the
			// timeout" does not hold for this run, nothing is claimed
			fmt.Printf("DRIVER-STAT c02t_sparse_premise_unmet=1\n")
		} else {
			tr.Emit("live", "kind", sc.Kind, "ms", int(time.Since(t0).Milliseconds()), "expired", expired,
				"worst_gap_ms", int(worst.Milliseconds()))
		}
	default:
		return fmt.Errorf("c02t: unknown kind %q", sc.Kind)
	}
	tr.Emit("end")
	return nil
}
