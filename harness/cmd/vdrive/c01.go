package main

// C01 driver: a real Server + ServerStream and 1..3 real reading Clients per scenario,
// over TCP / UDP / HTTP tunnel / WebSocket tunnel, plain or TLS(+SRTP); packets carry
// ids recoverable from the payload. Two modes:
//   sync  - writes happen in bursts; before any reader pauses or leaves, writing stops
//           and the harness waits (bounded) for reliable readers to catch up (barrier):
//           completeness + identity/order/at-most-once;
//   chaos - readers play, pause and leave while the writer keeps writing: identity,
//           order, at-most-once only.
//   record - a publishing Client writes, the server session's callback is the reader.

import (
	"encoding/json"
	"errors"
	"fmt"
	"github.com/bluenviron/gortsplib/v5/pkg/liberrors"
	"math/rand"
	"net"
	"os"
	"sync"
	"sync/atomic"

	"github.com/bluenviron/gortsplib/v5/pkg/base"
	"time"

	"github.com/bluenviron/gortsplib/v5"
	"github.com/bluenviron/gortsplib/v5/pkg/description"
	"github.com/bluenviron/gortsplib/v5/pkg/format"
	"github.com/pion/rtp"

	"verifharness/internal/bed"
	"verifharness/internal/vt"
)

func init() { drivers["c01"] = driveC01 }

type c01reader struct {
	Proto  string `json:"proto"`
	Tunnel string `json:"tunnel"`
	Slow   bool   `json:"slow"`
	Reord  int    `json:"reord"` // UDP: percentage of datagrams swapped with their successor
	Dup    int    `json:"dup"`   // UDP: percentage of datagrams delivered twice
	Late   bool   `json:"late"`  // sync: connects after the first round; packets are written between its DESCRIBE and its SETUPs
}

type c01scn struct {
	Seed    int64       `json:"seed"`
	Mode    string      `json:"mode"`
	NM      int         `json:"nm"`
	XF      int         `json:"xf"`  // additional formats on the first media
	Arb     bool        `json:"arb"` // arbitrary sequence numbers (all readers on reliable transports)
	TLS     bool        `json:"tls"`
	Queue   int         `json:"queue"`
	Rounds  int         `json:"rounds"`
	Burst   int         `json:"burst"`
	Readers []c01reader `json:"readers"`
}

func driveC01(a *args, s *vt.Sink) error {
	if a.replay != "" {
		var sc c01scn
		if err := json.Unmarshal([]byte(a.replay), &sc); err != nil {
			return err
		}
		return c01run(&sc, s)
	}
	n := a.n
	if n == 0 {
		n = 150
		if a.tier == "thorough" {
			n = 600
		}
	}
	for _, useTLS := range []bool{false, true} {
		if err := c01ping(s, useTLS, a.seed); err != nil {
			return err
		}
	}
	rng := rand.New(rand.NewSource(a.seed))
	var scns []*c01scn
	for i := 0; i < n; i++ {
		scns = append(scns, c01gen(rng, i))
	}
	// scenarios are independent: run a few in parallel
	workers := 6
	var wg sync.WaitGroup
	ch := make(chan *c01scn)
	errs := make(chan error, len(scns))
	for w := 0; w < workers; w++ {
		wg.Add(1)
		go func() {
			defer wg.Done()
			for sc := range ch {
				if err := c01run(sc, s); err != nil {
					errs <- err
				}
			}
		}()
	}
	for _, sc := range scns {
		ch <- sc
	}
	close(ch)
	wg.Wait()
	select {
	case err := <-errs:
		return err
	default:
	}
	return nil
}

func c01gen(rng *rand.Rand, i int) *c01scn {
	sc := &c01scn{Seed: rng.Int63(), NM: 1 + rng.Intn(2), Rounds: 2 + rng.Intn(3), Burst: 5 + rng.Intn(40)}
	switch {
	case i%6 == 5:
		sc.Mode = "record"
	case i%3 == 1:
		sc.Mode = "chaos"
	default:
		sc.Mode = "sync"
	}
	sc.TLS = rng.Intn(4) == 0
	if rng.Intn(3) == 0 {
		sc.XF = 1
	}
	sc.Queue = []int{8, 16, 64, 256}[rng.Intn(4)]
	nr := 1 + rng.Intn(3)
	if sc.Mode == "record" {
		nr = 1
	}
	// arbitrary sequence numbers only without SRTP: the SRTP packet index is derived from the
	// sequence number history (RFC 3711 3.3.1), which a reader that joins late or pauses does
	// not share with the sender when the numbers jump arbitrarily
	sc.Arb = rng.Intn(3) == 0 && !sc.TLS
	for r := 0; r < nr; r++ {
		rd := c01reader{Proto: "tcp"}
		switch rng.Intn(6) {
		case 0, 1:
			rd.Proto = "udp"
		case 2:
			rd.Tunnel = "http"
		case 3:
			rd.Tunnel = "ws"
		}
		// a slow reader with a small queue provokes queue-full reports
		rd.Slow = sc.Mode == "sync" && sc.Queue <= 16 && rng.Intn(3) == 0
		if rd.Proto == "udp" && rng.Intn(2) == 0 {
			rd.Reord = 10 + rng.Intn(40)
		}
		if rd.Proto == "udp" && rng.Intn(2) == 0 {
			// many duplicates over a long run (the receiver counts late packets)
			rd.Dup = 30 + rng.Intn(50)
			if sc.Burst < 60 {
				sc.Burst = 60 + rng.Intn(60)
			}
			if sc.Rounds < 3 {
				sc.Rounds = 3
			}
		}
		rd.Late = sc.Mode == "sync" && r > 0 && rng.Intn(3) == 0
		sc.Readers = append(sc.Readers, rd)
		if rd.Proto == "udp" {
			sc.Arb = false
		}
	}
	return sc
}

// a stream = one (media, format) pair of the description: index k is 1-based in media / format order
type c01stream struct {
	m  int // 0-based media index
	pt uint8
}

func c01streams(d *description.Session) []c01stream {
	out := []c01stream{{}}
	for m, medi := range d.Medias {
		for _, f := range medi.Formats {
			out = append(out, c01stream{m, f.PayloadType()})
		}
	}
	return out
}

type c01rstate struct {
	rd        *bed.Reader
	cfg       c01reader
	idx       int // 1-based
	last      [5]atomic.Int64
	ssrcDone  [5]atomic.Bool
	lossy     atomic.Bool
	streaming bool
	gone      bool
	// a barrier ended with packets still owed and no write error reported: the trace already
	// holds what Level A rejects
	behind bool
}

func c01run(sc *c01scn, s *vt.Sink) error {
	if sc.Mode == "record" {
		return c01record(sc, s)
	}
	desc, _ := json.Marshal(sc)
	rel := make([]bool, 4)
	for i, r := range sc.Readers {
		rel[i] = sc.Mode == "sync" && r.Proto == "tcp"
	}
	nk := sc.NM + sc.XF // streams = (media, format) pairs
	tr := s.Begin("c01/"+sc.Mode, string(desc), "nr", len(sc.Readers), "nm", nk, "rel", rel)
	defer tr.End()
	defer func() {
		if p := recover(); p != nil {
			tr.Emit("panic", "why", fmt.Sprint(p))
		}
	}()
	rng := rand.New(rand.NewSource(sc.Seed))
	cfg := bed.ServerCfg{UDP: true, Medias: sc.NM, ExtraFormats: sc.XF, WriteQueueSize: sc.Queue}
	if sc.TLS {
		cfg.TLS = bed.SelfSignedTLS()
	}
	bd, err := bed.Start(cfg)
	if err != nil {
		return err
	}
	defer bd.Close()

	// payloads up to the largest one that fits the default maximum packet size (1472: 12 bytes of
	// RTP header, 10 of SRTP authentication tag when secure)
	maxPL := 1460
	if sc.TLS && sc.Seed%4 >= 2 {
		// (the other secure scenarios keep 1460: packets of the last 10 sizes do not fit beside the
		// tag, their write must be refused and nothing of them may reach a reader)
		maxPL = 1450
	}
	spec := &bed.PacketSpec{MaxPL: maxPL, ArbSeq: sc.Arb, Wide: sc.Seed%2 == 0}
	anyLate := false
	for _, r := range sc.Readers {
		anyLate = anyLate || r.Late
	}
	for k := 1; k <= nk; k++ {
		spec.Seq0[k] = uint16(65536 - rng.Intn(60))
		if anyLate {
			// the wrap falls near the end of the first round: for a reader that connects then,
			// between its DESCRIBE and its SETUPs
			spec.Seq0[k] = uint16(65536 - sc.Burst/nk - 2 - rng.Intn(4))
		}
		spec.TS0[k] = uint32(0xFFFFFFFF - uint32(rng.Intn(200000)))
	}
	streams := c01streams(bd.Desc)
	if len(streams) != nk+1 {
		return fmt.Errorf("c01: %d streams in the description, expected %d", len(streams)-1, nk)
	}
	if sc.TLS && anyLate {
		// the additional formats of a media start far from the wrap: when a late reader joins, the
		// formats of one media (one SRTP context, one MIKEY message) have DIFFERENT roll-over
		// counters - the first format has wrapped, the others have not
		firstOf := map[int]bool{}
		for k := 1; k <= nk; k++ {
			if firstOf[streams[k].m] {
				spec.Seq0[k] = uint16(1000 + 37*k)
			}
			firstOf[streams[k].m] = true
		}
	}
	pts := make([]uint8, nk+1)
	for k := 1; k <= nk; k++ {
		pts[k] = streams[k].pt
	}

	// session -> reader, for write-error attribution: readers connect one at a time
	var smu sync.Mutex
	sessReader := map[*gortsplib.ServerSession]*c01rstate{}
	var connecting *c01rstate
	bd.OnSessionOpenHook = func(ss *gortsplib.ServerSession) {
		smu.Lock()
		if connecting != nil {
			sessReader[ss] = connecting
		}
		smu.Unlock()
	}
	bd.OnWriteErrorHook = func(ctx *gortsplib.ServerHandlerOnStreamWriteErrorCtx) {
		smu.Lock()
		r := sessReader[ctx.Session]
		smu.Unlock()
		if r != nil {
			r.lossy.Store(true)
			tr.Emit("werr", "r", r.idx)
		}
	}

	var readers []*c01rstate
	var writeFn func() // set below; used by late readers between DESCRIBE and SETUP
	begun := make([]int, nk+1)
	owed := make([]int, nk+1) // highest id written and not refused: what a reader can be waited for
	mkReader := func(i int, rc c01reader) error {
		st := &c01rstate{cfg: rc, idx: i + 1}
		smu.Lock()
		connecting = st
		smu.Unlock()
		onPkt := func(medi *description.Media, forma format.Format, pkt *rtp.Packet) {
			k, id, ok := bed.Identify(pkt.Payload)
			mi := st.rd.MediaIndex(medi)
			if !ok || k < 1 || k > nk {
				tr.Emit("dlv", "r", st.idx, "k", mi, "id", 0, "same", false)
				return
			}
			// delivered to the media AND the format it was written to
			same := mi == streams[k].m+1 && forma != nil && forma.PayloadType() == pts[k] && spec.Same(k, id, pts[k], pkt)
			if !st.ssrcDone[k].Swap(true) {
				ann := st.rd.AnnouncedSSRC(streams[k].m)
				tr.Emit("ssrc", "r", st.idx, "k", k, "same", ann == 0 || ann == pkt.SSRC)
			}
			tr.Emit("dlv", "r", st.idx, "k", k, "id", id, "same", same)
			if int64(id) > st.last[k].Load() {
				st.last[k].Store(int64(id))
			}
			if st.cfg.Slow {
				time.Sleep(2 * time.Millisecond)
			}
		}
		var after func()
		if rc.Late {
			after = func() {
				for k := 0; k < 3+sc.Burst/2 && writeFn != nil; k++ {
					writeFn()
				}
				// Secure streams: the keys and the roll-over counter travel with the SETUP response,
				// and a wrap of the sequence numbers between that moment and the first packet the
				// joiner receives is RFC 3711's own stated limit (DESIGN.md, C17): every stream
				// gets past its wrap here, before the SETUPs
				wrapped := func() bool {
					for k := 1; k <= nk; k++ {
						if spec.Seq0[k] > 60000 && int(spec.Seq0[k])+begun[k] <= 65536 {
							return false
						}
					}
					return true
				}
				for n := 0; sc.TLS && !sc.Arb && writeFn != nil && !wrapped() && n < 400; n++ {
					writeFn()
				}
			}
		}
		rd, err := bd.NewReader(bed.ReaderCfg{Proto: rc.Proto, Tunnel: rc.Tunnel, Timeout: 8 * time.Second,
			Reorder: rc.Reord, Dup: rc.Dup, Seed: sc.Seed + int64(i), AfterDescribe: after}, "stream", onPkt)
		if err != nil {
			return fmt.Errorf("c01: reader %d (%+v, tls=%v): %w", i+1, rc, sc.TLS, err)
		}
		st.rd = rd
		if os.Getenv("VERIF_DEBUG_DECODE") != "" {
			go func(i int) { fmt.Fprintln(os.Stderr, "reader", i+1, "ended:", rd.C.Wait()) }(i)
		}
		readers = append(readers, st)
		smu.Lock()
		connecting = nil
		smu.Unlock()
		return nil
	}
	for i, rc := range sc.Readers {
		if rc.Late && sc.Mode == "sync" {
			continue
		}
		if err := mkReader(i, rc); err != nil {
			return err
		}
	}
	defer func() {
		for _, r := range readers {
			r.rd.Close()
		}
	}()

	write := func() {
		k := 1 + rng.Intn(nk)
		begun[k]++
		id := begun[k]
		pkt := spec.Make(k, id, pts[k])
		tr.Emit("wbeg", "k", k, "id", id)
		err := bd.Stream.WritePacketRTP(bd.Desc.Medias[streams[k].m], pkt)
		tr.Emit("wend", "k", k, "id", id)
		if err == nil {
			owed[k] = id
		}
		if err != nil && sc.TLS && pkt.MarshalSize() > 1472-10 {
			// too big for a secure stream: refused as a whole
			tr.Emit("wrefused", "k", k, "id", id)
			if os.Getenv("VERIF_DEBUG_DECODE") != "" {
				fmt.Fprintln(os.Stderr, "refused:", id, pkt.MarshalSize(), err)
			}
		} else if err != nil {
			for _, r := range readers {
				r.lossy.Store(true)
				tr.Emit("werr", "r", r.idx)
			}
		}
	}
	writeFn = write
	play := func(r *c01rstate) error {
		if _, err := r.rd.C.Play(nil); err != nil {
			return fmt.Errorf("c01: play reader %d: %w", r.idx, err)
		}
		r.streaming = true
		tr.Emit("play", "r", r.idx)
		return nil
	}
	barrier := func(r *c01rstate) {
		if !(r.streaming && sc.Mode == "sync" && r.cfg.Proto == "tcp") {
			return
		}
		deadline := time.Now().Add(4 * time.Second)
		for time.Now().Before(deadline) {
			done := true
			for k := 1; k <= nk; k++ {
				if r.last[k].Load() < int64(owed[k]) {
					done = false
				}
			}
			if done {
				break
			}
			if r.lossy.Load() && time.Until(deadline) < 3600*time.Millisecond {
				break // something was reported lost: do not wait for it
			}
			time.Sleep(200 * time.Microsecond)
		}
		for k := 1; k <= nk; k++ {
			if r.last[k].Load() < int64(owed[k]) && !r.lossy.Load() {
				r.behind = true
			}
		}
		tr.Emit("barrier", "r", r.idx)
	}

	if sc.Mode == "sync" {
		for round := 0; round < sc.Rounds; round++ {
			if round == 1 {
				for i, rc := range sc.Readers {
					if rc.Late {
						if err := mkReader(i, rc); err != nil {
							return err
						}
					}
				}
			}
			for _, r := range readers {
				if !r.gone && !r.streaming && (round == 0 || rng.Intn(2) == 0) {
					if err := play(r); err != nil {
						return err
					}
				}
			}
			for i := 0; i < sc.Burst; i++ {
				write()
				if rng.Intn(8) == 0 {
					time.Sleep(time.Duration(rng.Intn(300)) * time.Microsecond)
				}
			}
			for _, r := range readers {
				barrier(r)
			}
			// UDP readers get a moment too (no completeness is claimed for them)
			time.Sleep(2 * time.Millisecond)
			for _, r := range readers {
				if r.gone || !r.streaming {
					continue
				}
				switch rng.Intn(4) {
				case 0:
					tr.Emit("stop", "r", r.idx)
					if _, err := r.rd.C.Pause(); err != nil {
						var te liberrors.ErrClientRequestTimedOut
						var ne net.Error
						if errors.As(err, &te) || (errors.As(err, &ne) && ne.Timeout()) {
							if r.behind {
								return nil // the scenario ends here; what the trace holds so far is judged
							}
							return fmt.Errorf("c01: pause reader %d: %w", r.idx, err) // load: no verdict
						}
						// a playing reader cannot pause although nothing timed out: what it was sent
						// made its connection unusable (no Level A action accepts this event)
						tr.Emit("reader_broken", "r", r.idx, "op", "pause", "why", fmt.Sprintf("%.60q", err.Error()))
						return nil
					}
					r.streaming = false
				case 1:
					if round > 0 {
						tr.Emit("stop", "r", r.idx)
						r.rd.Close()
						r.streaming, r.gone = false, true
					}
				}
			}
		}
	} else { // chaos
		var writerWG, readersWG sync.WaitGroup
		stop := make(chan struct{})
		writerWG.Add(1)
		go func() {
			defer writerWG.Done()
			for {
				select {
				case <-stop:
					return
				default:
				}
				write()
				if rng.Intn(4) == 0 {
					time.Sleep(time.Duration(rng.Intn(200)) * time.Microsecond)
				}
			}
		}()
		var rerr error
		var rmu sync.Mutex
		for _, r := range readers {
			readersWG.Add(1)
			go func(r *c01rstate) {
				defer readersWG.Done()
				lr := rand.New(rand.NewSource(sc.Seed + int64(r.idx)*101))
				for round := 0; round < sc.Rounds; round++ {
					if _, err := r.rd.C.Play(nil); err != nil {
						rmu.Lock()
						rerr = fmt.Errorf("c01: chaos play reader %d: %w", r.idx, err)
						rmu.Unlock()
						return
					}
					tr.Emit("play", "r", r.idx)
					time.Sleep(time.Duration(1+lr.Intn(8)) * time.Millisecond)
					tr.Emit("stop", "r", r.idx)
					if round == sc.Rounds-1 && lr.Intn(2) == 0 {
						r.rd.Close()
						return
					}
					if _, err := r.rd.C.Pause(); err != nil {
						rmu.Lock()
						rerr = fmt.Errorf("c01: chaos pause reader %d: %w", r.idx, err)
						rmu.Unlock()
						return
					}
					time.Sleep(time.Duration(lr.Intn(3)) * time.Millisecond)
				}
			}(r)
		}
		readersWG.Wait()
		close(stop)
		writerWG.Wait()
		if rerr != nil {
			return rerr
		}
	}
	tr.Emit("end")
	return nil
}

// c01record: a publishing client writes; the server session's packet callback is reader 1.
func c01record(sc *c01scn, s *vt.Sink) error {
	desc, _ := json.Marshal(sc)
	rc := sc.Readers[0]
	reliable := rc.Proto == "tcp"
	nk := sc.NM + sc.XF
	tr := s.Begin("c01/record", string(desc), "nr", 1, "nm", nk, "rel", []bool{reliable, false, false, false})
	defer tr.End()
	defer func() {
		if p := recover(); p != nil {
			tr.Emit("panic", "why", fmt.Sprint(p))
		}
	}()
	rng := rand.New(rand.NewSource(sc.Seed))
	cfg := bed.ServerCfg{UDP: true, Medias: sc.NM}
	if sc.TLS {
		cfg.TLS = bed.SelfSignedTLS()
	}
	if rc.Proto == "udp" && (rc.Reord > 0 || rc.Dup > 0) {
		// the publisher's datagrams reach the server slightly reordered / duplicated
		cfg.Extra = func(srv *gortsplib.Server) {
			srv.ListenPacket = func(network, address string) (net.PacketConn, error) {
				pc, err := net.ListenPacket(network, address)
				if err != nil {
					return nil, err
				}
				c := bed.NewReorderConn(pc, rc.Reord, sc.Seed)
				c.Dup = rc.Dup
				return c, nil
			}
		}
	}
	bd, err := bed.Start(cfg)
	if err != nil {
		return err
	}
	defer bd.Close()
	// payloads up to the largest one that fits the default maximum packet size (1472: 12 bytes of
	// RTP header, 10 of SRTP authentication tag when secure)
	maxPL := 1460
	if sc.TLS {
		maxPL = 1450
	}
	spec := &bed.PacketSpec{MaxPL: maxPL, ArbSeq: sc.Arb, Wide: sc.Seed%2 == 0}
	for k := 1; k <= nk; k++ {
		spec.Seq0[k] = uint16(65536 - rng.Intn(60))
		spec.TS0[k] = uint32(0xFFFFFFFF - uint32(rng.Intn(200000)))
	}
	pdesc := bed.DefaultDescX(sc.NM, sc.XF)
	streams := c01streams(pdesc)
	pts := make([]uint8, nk+1)
	for k := 1; k <= nk; k++ {
		pts[k] = streams[k].pt
	}
	var last [5]atomic.Int64
	bd.OnRecordHook = func(ctx *gortsplib.ServerHandlerOnRecordCtx) {
		medias := ctx.Session.AnnouncedDescription().Medias
		ctx.Session.OnPacketRTPAny(func(medi *description.Media, forma format.Format, pkt *rtp.Packet) {
			mi := 0
			for i, m := range medias {
				if m == medi {
					mi = i + 1
				}
			}
			k, id, ok := bed.Identify(pkt.Payload)
			if !ok || k < 1 || k > nk {
				tr.Emit("dlv", "r", 1, "k", mi, "id", 0, "same", false)
				return
			}
			tr.Emit("dlv", "r", 1, "k", k, "id", id, "same",
				mi == streams[k].m+1 && forma != nil && forma.PayloadType() == pts[k] && spec.Same(k, id, pts[k], pkt))
			if int64(id) > last[k].Load() {
				last[k].Store(int64(id))
			}
		})
	}
	scheme := "rtsp"
	if sc.TLS {
		scheme = "rtsps"
	}
	c := &gortsplib.Client{ReadTimeout: 8 * time.Second, WriteTimeout: 8 * time.Second}
	if sc.TLS {
		c.TLSConfig = bed.ClientTLS()
	}
	if rc.Proto == "udp" {
		p := gortsplib.ProtocolUDP
		c.Protocol = &p
	} else {
		p := gortsplib.ProtocolTCP
		c.Protocol = &p
	}
	switch rc.Tunnel {
	case "http":
		c.Tunnel = gortsplib.TunnelHTTP
	case "ws":
		c.Tunnel = gortsplib.TunnelWebSocket
	}
	_ = scheme
	if err := c.StartRecording(bd.URL("pub"), pdesc); err != nil {
		return fmt.Errorf("c01: StartRecording (%+v tls=%v): %w", rc, sc.TLS, err)
	}
	defer c.Close()
	tr.Emit("play", "r", 1) // RECORD has completed: the session is streaming
	begun := make([]int, nk+1)
	for round := 0; round < sc.Rounds; round++ {
		for i := 0; i < sc.Burst; i++ {
			k := 1 + rng.Intn(nk)
			begun[k]++
			id := begun[k]
			pkt := spec.Make(k, id, pts[k])
			tr.Emit("wbeg", "k", k, "id", id)
			err := c.WritePacketRTP(pdesc.Medias[streams[k].m], pkt)
			tr.Emit("wend", "k", k, "id", id)
			if err != nil {
				tr.Emit("werr", "r", 1)
			}
		}
		if reliable {
			deadline := time.Now().Add(4 * time.Second)
			for time.Now().Before(deadline) {
				done := true
				for k := 1; k <= nk; k++ {
					if last[k].Load() < int64(begun[k]) {
						done = false
					}
				}
				if done {
					break
				}
				time.Sleep(200 * time.Microsecond)
			}
			tr.Emit("barrier", "r", 1)
		} else {
			time.Sleep(3 * time.Millisecond)
		}
		if round == 0 && sc.Rounds > 1 && sc.Seed%3 == 0 {
			// the application refuses a PAUSE of the publisher (status 400, connection kept): the
			// publisher goes on recording, and what it writes afterwards is owed like before
			var once atomic.Bool
			bd.OnPauseHook = func() *base.Response {
				if once.CompareAndSwap(false, true) {
					return &base.Response{StatusCode: base.StatusBadRequest}
				}
				return nil
			}
			if _, err := c.Pause(); err == nil {
				tr.Emit("pause_not_refused")
			}
		}
	}
	tr.Emit("stop", "r", 1)
	tr.Emit("end")
	return nil
}
