package main

// C01, "ping" scenario: a raw peer plays over TCP (plain and TLS) and keeps sending
// GET_PARAMETER requests while the writer streams, so that responses and interleaved frames
// are written to the same connection by two goroutines of the server at the same time. The
// peer parses everything it receives itself: every frame must be one whole packet, identical
// to what was written, in order; the barrier at the end demands all of them.

import (
	"bufio"
	"crypto/tls"
	"fmt"
	"net"
	"strconv"
	"sync"
	"sync/atomic"
	"time"

	"github.com/bluenviron/gortsplib/v5/pkg/base"
	"github.com/bluenviron/gortsplib/v5/pkg/conn"
	"github.com/bluenviron/gortsplib/v5/pkg/headers"
	"github.com/pion/rtp"

	"verifharness/internal/bed"
	"verifharness/internal/vt"
)

func c01ping(s *vt.Sink, useTLS bool, seed int64) error {
	tr := s.Begin("c01/ping", fmt.Sprintf(`{"mode":"ping","tls":%v,"seed":%d}`, useTLS, seed),
		"nr", 1, "nm", 2, "rel", []bool{true, false, false, false})
	defer tr.End()
	defer func() {
		if p := recover(); p != nil {
			tr.Emit("panic", "why", fmt.Sprint(p))
		}
	}()
	cfg := bed.ServerCfg{Medias: 2, WriteQueueSize: 512}
	if useTLS {
		cfg.TLS = bed.SelfSignedTLS()
	}
	bd, err := bed.Start(cfg)
	if err != nil {
		return err
	}
	defer bd.Close()
	nc, err := net.DialTimeout("tcp", net.JoinHostPort(bd.IP, strconv.Itoa(bd.Port)), 3*time.Second)
	if err != nil {
		return err
	}
	if useTLS {
		nc = tls.Client(nc, bed.ClientTLS())
	}
	defer nc.Close()
	cc := conn.NewConn(bufio.NewReaderSize(nc, 65536), nc)
	var wmu sync.Mutex // the peer's own writes
	cseq := 0
	send := func(req *base.Request) error {
		wmu.Lock()
		defer wmu.Unlock()
		cseq++
		if req.Header == nil {
			req.Header = base.Header{}
		}
		req.Header["CSeq"] = base.HeaderValue{strconv.Itoa(cseq)}
		nc.SetWriteDeadline(time.Now().Add(3 * time.Second)) //nolint:errcheck
		return cc.WriteRequest(req)
	}
	// handshake, strictly request / response
	url := bd.URL("stream")
	sess := ""
	do := func(req *base.Request) error {
		if sess != "" {
			if req.Header == nil {
				req.Header = base.Header{}
			}
			req.Header["Session"] = base.HeaderValue{sess}
		}
		if err := send(req); err != nil {
			return err
		}
		nc.SetReadDeadline(time.Now().Add(3 * time.Second)) //nolint:errcheck
		for {
			v, err := cc.Read()
			if err != nil {
				return err
			}
			if res, ok := v.(*base.Response); ok {
				if res.StatusCode != base.StatusOK {
					return fmt.Errorf("%s: status %d", req.Method, res.StatusCode)
				}
				var sh headers.Session
				if sh.Unmarshal(res.Header["Session"]) == nil {
					sess = sh.Session
				}
				return nil
			}
		}
	}
	for track := 0; track < 2; track++ {
		th := headers.Transport{Protocol: headers.TransportProtocolTCP, InterleavedIDs: &[2]int{track * 2, track*2 + 1}}
		d := headers.TransportDeliveryUnicast
		th.Delivery = &d
		if useTLS {
			th.Profile = headers.TransportProfileAVP // (plain RTP inside the TLS connection is admitted)
		}
		if err := do(&base.Request{Method: base.Setup, URL: bed.MustURL(url + "/trackID=" + strconv.Itoa(track)),
			Header: base.Header{"Transport": th.Marshal()}}); err != nil {
			return fmt.Errorf("c01 ping: setup: %w", err)
		}
	}
	if err := do(&base.Request{Method: base.Play, URL: bed.MustURL(url)}); err != nil {
		return fmt.Errorf("c01 ping: play: %w", err)
	}
	tr.Emit("play", "r", 1)

	spec := &bed.PacketSpec{MaxPL: 1200}
	spec.Seq0[1], spec.Seq0[2] = uint16(65536-40), 300
	pts := [3]uint8{0, bd.Desc.Medias[0].Formats[0].PayloadType(), bd.Desc.Medias[1].Formats[0].PayloadType()}
	var last [3]atomic.Int64
	var responses atomic.Int64
	var broken atomic.Bool
	rdone := make(chan struct{})
	go func() {
		defer close(rdone)
		for {
			nc.SetReadDeadline(time.Now().Add(4 * time.Second)) //nolint:errcheck
			v, err := cc.Read()
			if err != nil {
				return
			}
			switch x := v.(type) {
			case *base.Response:
				responses.Add(1)
				if x.StatusCode != base.StatusOK {
					broken.Store(true)
					tr.Emit("reader_broken", "r", 1, "op", "ping", "why", fmt.Sprintf("status %d", x.StatusCode))
				}
			case *base.InterleavedFrame:
				if x.Channel%2 == 1 {
					continue // the server's sender reports
				}
				var pkt rtp.Packet
				if pkt.Unmarshal(append([]byte(nil), x.Payload...)) != nil {
					tr.Emit("dlv", "r", 1, "k", x.Channel/2+1, "id", 0, "same", false)
					continue
				}
				k, id, ok := bed.Identify(pkt.Payload)
				if !ok || k < 1 || k > 2 {
					tr.Emit("dlv", "r", 1, "k", x.Channel/2+1, "id", 0, "same", false)
					continue
				}
				tr.Emit("dlv", "r", 1, "k", k, "id", id, "same", k == x.Channel/2+1 && spec.Same(k, id, pts[k], &pkt))
				last[k].Store(int64(id))
			}
		}
	}()

	// the writer, and the pinger beside it
	stopPing := make(chan struct{})
	var pwg sync.WaitGroup
	pwg.Add(1)
	pings := 0
	go func() {
		defer pwg.Done()
		for {
			select {
			case <-stopPing:
				return
			default:
			}
			if send(&base.Request{Method: base.GetParameter, URL: bed.MustURL(url),
				Header: base.Header{"Session": base.HeaderValue{sess}}}) != nil {
				return
			}
			pings++
			time.Sleep(150 * time.Microsecond)
		}
	}()
	var begun [3]int
	lossy := false
	for i := 0; i < 1500 && !broken.Load(); i++ {
		k := 1 + i%2
		begun[k]++
		id := begun[k]
		tr.Emit("wbeg", "k", k, "id", id)
		err := bd.Stream.WritePacketRTP(bd.Desc.Medias[k-1], spec.Make(k, id, pts[k]))
		tr.Emit("wend", "k", k, "id", id)
		if err != nil && !lossy {
			lossy = true
			tr.Emit("werr", "r", 1)
		}
		if i%64 == 63 {
			time.Sleep(time.Millisecond)
		}
	}
	close(stopPing)
	pwg.Wait()
	deadline := time.Now().Add(3 * time.Second)
	for time.Now().Before(deadline) && !lossy {
		if last[1].Load() >= int64(begun[1]) && last[2].Load() >= int64(begun[2]) {
			break
		}
		time.Sleep(time.Millisecond)
	}
	tr.Emit("barrier", "r", 1)
	fmt.Printf("DRIVER-STAT c01_ping_requests=%d\n", pings)
	nc.Close()
	<-rdone
	tr.Emit("end")
	return nil
}
