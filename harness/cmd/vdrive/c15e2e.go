package main

// C15, end to end: a media that offers two formats (two SSRCs, two sender-report streams) is
// served to a real Client. The first format streams for a while - its sender reports reach
// the client - and only then does the second format start. The absolute time the client
// returns for a packet of the second format must be the one the writer associated with that
// packet (or none, as long as no report of ITS stream has arrived): a report belongs to the
// stream whose SSRC it names. Event: ntpe2e{known, diffms, stage}.

import (
	"fmt"
	"sync"
	"time"

	"github.com/bluenviron/gortsplib/v5"
	"github.com/bluenviron/gortsplib/v5/pkg/description"
	"github.com/bluenviron/gortsplib/v5/pkg/format"
	"github.com/pion/rtcp"
	"github.com/pion/rtp"

	"verifharness/internal/bed"
	"verifharness/internal/vt"
)

func c15e2e(s *vt.Sink, proto string) error {
	tr := s.Begin("c15/e2e", fmt.Sprintf(`{"p":"e2e","k":"c15/e2e","proto":%q}`, proto), "rates", []int{90000, 90000, 1}, "pl", 1)
	defer tr.End()
	defer func() {
		if p := recover(); p != nil {
			tr.Emit("panic", "why", fmt.Sprint(p))
		}
	}()
	bd, err := bed.Start(bed.ServerCfg{UDP: true, Medias: 1, ExtraFormats: 1, Extra: func(sv *gortsplib.Server) {
		gortsplib.VerifSetServerKnobs(sv, nil, 20*time.Millisecond, 0, 0)
	}})
	if err != nil {
		return err
	}
	defer bd.Close()
	medi := bd.Desc.Medias[0]
	ptA, ptB := medi.Formats[0].PayloadType(), medi.Formats[1].PayloadType()

	var mu sync.Mutex
	srs := map[uint8]int{} // sender reports seen, by the payload type whose packets carried that SSRC
	ssrcOf := map[uint32]uint8{}
	type obs struct {
		known bool
		at    time.Time
		ts    uint32
	}
	var got []obs
	var rd *bed.Reader
	rd, err = bd.NewReader(bed.ReaderCfg{Proto: proto, Timeout: 5 * time.Second}, "stream",
		func(m *description.Media, _ format.Format, pkt *rtp.Packet) {
			mu.Lock()
			ssrcOf[pkt.SSRC] = pkt.PayloadType
			mu.Unlock()
			if pkt.PayloadType != ptB {
				return
			}
			at, ok := rd.C.PacketNTP(m, pkt)
			mu.Lock()
			got = append(got, obs{ok, at, pkt.Timestamp})
			mu.Unlock()
		})
	if err != nil {
		return fmt.Errorf("c15 e2e: %w", err)
	}
	defer rd.Close()
	rd.C.OnPacketRTCPAny(func(_ *description.Media, p rtcp.Packet) {
		if sr, ok := p.(*rtcp.SenderReport); ok {
			mu.Lock()
			srs[ssrcOf[sr.SSRC]]++
			mu.Unlock()
		}
	})
	if _, err = rd.C.Play(nil); err != nil {
		return fmt.Errorf("c15 e2e: play: %w", err)
	}

	// two writers' clocks that have nothing in common
	baseA := time.Date(2020, 1, 1, 0, 0, 0, 0, time.UTC)
	baseB := time.Date(2031, 5, 5, 12, 0, 0, 0, time.UTC)
	const tsB0 = 0x70000000
	mkA := func(i int) *rtp.Packet { // H264 IDR slice: a packet whose PTS equals its DTS
		return &rtp.Packet{Header: rtp.Header{Version: 2, PayloadType: ptA, SequenceNumber: uint16(100 + i),
			Timestamp: uint32(1000 + 3600*i)}, Payload: []byte{0x65, 1, 2, 3, byte(i)}}
	}
	mkB := func(i int) *rtp.Packet { // H265 IDR_W_RADL
		return &rtp.Packet{Header: rtp.Header{Version: 2, PayloadType: ptB, SequenceNumber: uint16(7000 + i),
			Timestamp: uint32(tsB0 + 3600*i)}, Payload: []byte{0x26, 0x01, 9, 9, byte(i)}}
	}
	timeB := func(i int) time.Time { return baseB.Add(time.Duration(i) * 40 * time.Millisecond) }
	count := func(pt uint8) int {
		mu.Lock()
		defer mu.Unlock()
		return srs[pt]
	}
	// stage 1: only the first format; its reports flow
	t0 := time.Now()
	for i := 0; count(ptA) < 40 && time.Since(t0) < 4*time.Second; i++ {
		if err := bd.Stream.WritePacketRTPWithNTP(medi, mkA(i), baseA.Add(time.Duration(i)*40*time.Millisecond)); err != nil {
			return fmt.Errorf("c15 e2e: write: %w", err)
		}
		time.Sleep(3 * time.Millisecond)
	}
	if count(ptA) < 3 {
		return fmt.Errorf("c15 e2e: the reader saw only %d sender reports of the first format", count(ptA))
	}
	report := func(stage string, want int) error {
		deadline := time.Now().Add(2 * time.Second)
		for {
			mu.Lock()
			n := len(got)
			mu.Unlock()
			if n >= want {
				break
			}
			if time.Now().After(deadline) {
				return fmt.Errorf("c15 e2e: packet %d of the second format did not arrive", want)
			}
			time.Sleep(time.Millisecond)
		}
		mu.Lock()
		o := got[want-1]
		mu.Unlock()
		i := int(o.ts-tsB0) / 3600
		diff := int64(0)
		if o.known {
			diff = o.at.Sub(timeB(i)).Milliseconds()
			if diff > 1<<30 || diff < -(1<<30) {
				diff = 1 << 30
			}
		}
		tr.Emit("ntpe2e", "known", o.known, "diffms", int(diff), "stage", stage)
		return nil
	}
	// stage 2: the second format starts; no report of its own yet
	if err := bd.Stream.WritePacketRTPWithNTP(medi, mkB(0), timeB(0)); err != nil {
		return fmt.Errorf("c15 e2e: write: %w", err)
	}
	if err := report("before_own_report", 1); err != nil {
		return err
	}
	// stage 3: it keeps going until its own reports have arrived
	n := 1
	t1 := time.Now()
	for ; count(ptB) < 3 && time.Since(t1) < 4*time.Second; n++ {
		if err := bd.Stream.WritePacketRTPWithNTP(medi, mkB(n), timeB(n)); err != nil {
			return fmt.Errorf("c15 e2e: write: %w", err)
		}
		time.Sleep(3 * time.Millisecond)
	}
	if err := bd.Stream.WritePacketRTPWithNTP(medi, mkB(n), timeB(n)); err != nil {
		return fmt.Errorf("c15 e2e: write: %w", err)
	}
	if err := report("after_own_report", n+1); err != nil {
		return err
	}
	tr.Emit("end")
	return nil
}
