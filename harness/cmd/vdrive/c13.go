package main

// C13 driver: Close from any state. Scenarios (seeded, run one at a time so that the
// goroutine census is attributable): idle, mid-handshake raw peers, playing readers on
// every transport with a concurrent writer, a recording publisher with a (slow) packet
// callback, a peer that stopped reading. One of Server.Close / ServerStream.Close /
// Client.Close / peer TEARDOWN is invoked at a random moment, concurrently with writes;
// then everything else is closed and the census (library goroutines, ports) is taken.

import (
	"context"
	"encoding/json"
	"fmt"
	"math/rand"
	"net"
	"runtime"
	"strconv"
	"strings"
	"sync"
	"sync/atomic"
	"syscall"
	"time"

	"github.com/bluenviron/gortsplib/v5"
	"github.com/bluenviron/gortsplib/v5/pkg/base"
	"github.com/bluenviron/gortsplib/v5/pkg/description"
	"github.com/bluenviron/gortsplib/v5/pkg/format"
	"github.com/bluenviron/gortsplib/v5/pkg/headers"
	"github.com/pion/rtp"

	"verifharness/internal/bed"
	"verifharness/internal/vt"
)

func init() { drivers["c13"] = driveC13 }

type c13scn struct {
	Seed   int64    `json:"seed"`
	Kind   string   `json:"kind"`   // idle | handshake | play | record | stuck | tunnelabort | ctunnelabort
	Proto  string   `json:"proto"`  // tcp | udp | mcast (play scenarios, plain)
	Tunnel string   `json:"tunnel"` // "" | http | ws
	TLS    bool     `json:"tls"`
	Closer string   `json:"closer"` // server | stream | client | teardown
	Slow   bool     `json:"slow"`
	N      int      `json:"n"`             // readers
	Cycles int      `json:"cycles"`        // pause / resume cycles of the readers or of the publisher before the first Close
	Mix    []string `json:"mix,omitempty"` // play: transport of each reader when they differ (tcp | udp | mcast)
	// tunnelabort: which half of a raw HTTP tunnel the peer aborts and how
	// (post_rst | get_rst | post_fin | get_fin | both_rst), and whether it was playing.
	// ctunnelabort: the same seen from the other side - a library client plays through an HTTP
	// tunnel and the half named here is aborted at the SERVER's end of it
	Abort   string `json:"abort,omitempty"`
	Playing bool   `json:"playing,omitempty"`
}

func driveC13(a *args, s *vt.Sink) error {
	if a.replay != "" {
		var sc c13scn
		if err := json.Unmarshal([]byte(a.replay), &sc); err != nil {
			return err
		}
		return c13run(&sc, s)
	}
	n := a.n
	if n == 0 {
		n = 150
		if a.tier == "thorough" {
			n = 1200
		}
	}
	rng := rand.New(rand.NewSource(a.seed))
	for i := 0; i < n; i++ {
		sc := &c13scn{Seed: rng.Int63()}
		switch i % 10 {
		case 0:
			sc.Kind = "idle"
		case 1:
			sc.Kind = "handshake"
		case 2:
			sc.Kind = "stuck"
		case 3, 4, 5, 6:
			sc.Kind = "record"
		default:
			sc.Kind = "play"
		}
		sc.Proto = []string{"tcp", "udp"}[rng.Intn(2)]
		if sc.Proto == "tcp" {
			sc.Tunnel = []string{"", "", "http", "ws"}[rng.Intn(4)]
		}
		sc.TLS = rng.Intn(5) == 0
		sc.Closer = []string{"server", "server", "stream", "client", "teardown"}[rng.Intn(5)]
		if sc.Kind == "record" && sc.Closer == "stream" {
			sc.Closer = "server"
		}
		if sc.Kind == "play" && sc.Proto == "udp" && !sc.TLS && rng.Intn(2) == 0 {
			sc.Proto = "mcast" // readers share the stream's multicast writer
		}
		if sc.Kind == "play" && !sc.TLS && sc.Tunnel == "" && rng.Intn(3) == 0 {
			// readers of one stream over different transports, leaving in any order
			sc.N = 2 + rng.Intn(2)
			sc.Mix = nil
			for i := 0; i < sc.N; i++ {
				sc.Mix = append(sc.Mix, []string{"tcp", "udp", "mcast"}[rng.Intn(3)])
			}
			sc.Closer = "client"
		}
		if (sc.Kind == "play" || sc.Kind == "record") && rng.Intn(3) == 0 {
			sc.Cycles = 1 + rng.Intn(2)
		}
		sc.Slow = rng.Intn(2) == 0
		if sc.Mix == nil {
			sc.N = 1 + rng.Intn(3)
		}
		if sc.Kind == "record" && rng.Intn(2) == 0 {
			sc.Proto, sc.Tunnel, sc.Slow = "udp", "", true
		}
		if err := c13run(sc, s); err != nil {
			return err
		}
	}
	// a raw HTTP tunnel one half of which the peer aborts: every combination
	rounds := 1
	if a.tier == "thorough" {
		rounds = 4
	}
	for k := 0; k < rounds; k++ {
		for _, ab := range []string{"post_rst", "get_rst", "post_fin", "get_fin", "both_rst"} {
			for v := 0; v < 4; v++ {
				sc := &c13scn{Seed: rng.Int63(), Kind: "tunnelabort", Proto: "tcp", Tunnel: "http",
					TLS: v&1 == 1, Playing: v&2 == 2, Abort: ab, Closer: "server"}
				if err := c13run(sc, s); err != nil {
					return err
				}
			}
			for v := 0; v < 2; v++ {
				sc := &c13scn{Seed: rng.Int63(), Kind: "ctunnelabort", Proto: "tcp", Tunnel: "http",
					TLS: v&1 == 1, Abort: ab, Closer: "client", N: 1}
				if err := c13run(sc, s); err != nil {
					return err
				}
			}
		}
	}
	return nil
}

// c13libGoroutines counts goroutines that run library code only (no harness frame).
func c13libGoroutines() int {
	buf := make([]byte, 1<<22)
	n := runtime.Stack(buf, true)
	cnt := 0
	for _, g := range strings.Split(string(buf[:n]), "\n\n") {
		if strings.Contains(g, "github.com/bluenviron/gortsplib/v5") &&
			!strings.Contains(g, "verifharness/") && !strings.Contains(g, "main.") {
			cnt++
		}
	}
	return cnt
}

func c13portsBusy(ip string, tcp int, udp int) int {
	busy := 0
	if tcp != 0 {
		l, err := net.Listen("tcp", net.JoinHostPort(ip, strconv.Itoa(tcp)))
		if err != nil {
			busy++
		} else {
			l.Close()
		}
	}
	if udp != 0 {
		for _, p := range []int{udp, udp + 1} {
			c, err := net.ListenPacket("udp", net.JoinHostPort(ip, strconv.Itoa(p)))
			if err != nil {
				busy++
			} else {
				c.Close()
			}
		}
	}
	return busy
}

func c13run(sc *c13scn, s *vt.Sink) (err error) {
	desc, _ := json.Marshal(sc)
	tr := s.Begin("c13/"+sc.Kind, string(desc))
	defer tr.End()
	defer func() {
		if p := recover(); p != nil {
			tr.Emit("panic", "why", fmt.Sprint(p))
		}
	}()
	rng := rand.New(rand.NewSource(sc.Seed))
	base0 := c13libGoroutines()
	socks := &c13socks{}

	cfg := bed.ServerCfg{UDP: true, Medias: 2, WriteQueueSize: 64, ReadTimeout: 3 * time.Second,
		WriteTimeout: 1500 * time.Millisecond}
	if sc.TLS {
		cfg.TLS = bed.SelfSignedTLS()
	}
	cfg.Multicast = sc.Proto == "mcast"
	for _, p := range sc.Mix {
		cfg.Multicast = cfg.Multicast || p == "mcast"
	}
	if sc.Kind == "record" && sc.Proto == "udp" {
		// datagrams reach the server slightly reordered, so that one datagram can release
		// several packets (and callbacks) from the reorder buffer
		cfg.Extra = func(srv *gortsplib.Server) {
			srv.ListenPacket = func(network, address string) (net.PacketConn, error) {
				pc, err := net.ListenPacket(network, address)
				if err != nil {
					return nil, err
				}
				return bed.NewReorderConn(pc, 35, sc.Seed), nil
			}
		}
	}
	// every connection the server accepts is tracked: after Server.Close none may be open
	accepted := &c13accepted{}
	dialed := &c13accepted{} // ... and every TCP connection a reading client opens
	prevExtra := cfg.Extra
	cfg.Extra = func(srv *gortsplib.Server) {
		if prevExtra != nil {
			prevExtra(srv)
		}
		srv.Listen = func(network, address string) (net.Listener, error) {
			ln, err := net.Listen(network, address)
			if err != nil {
				return nil, err
			}
			return &c13listener{Listener: ln, a: accepted}, nil
		}
	}
	bd, err := bed.Start(cfg)
	if err != nil {
		return err
	}
	bd.SetTrace(tr)
	cb := func(ss *gortsplib.ServerSession) {
		bd.Emit("cb", "s", bd.SessID(ss))
	}
	bd.OnSetupHook = func(ctx *gortsplib.ServerHandlerOnSetupCtx) { cb(ctx.Session) }
	bd.OnPlayHook = func(ctx *gortsplib.ServerHandlerOnPlayCtx) { cb(ctx.Session) }
	bd.OnAnnounceHook = func(ctx *gortsplib.ServerHandlerOnAnnounceCtx) { cb(ctx.Session) }
	var sessions sync.Map
	bd.OnRecordHook = func(ctx *gortsplib.ServerHandlerOnRecordCtx) {
		cb(ctx.Session)
		ss := ctx.Session
		sessions.Store(ss, true)
		ss.OnPacketRTPAny(func(_ *description.Media, _ format.Format, _ *rtp.Packet) {
			cb(ss)
			if sc.Slow {
				time.Sleep(time.Millisecond)
			}
		})
	}

	serverClosed := false
	closeObj := func(name string, f func()) {
		tr.Emit("close_call", "o", name)
		t0 := time.Now()
		done := make(chan struct{})
		go func() { f(); close(done) }()
		select {
		case <-done:
			tr.Emit("close_ret", "o", name, "ms", int(time.Since(t0).Milliseconds()))
		case <-time.After(15 * time.Second):
			tr.Emit("close_hung", "o", name) // no Level A action: rejected
			<-done
		}
	}
	closeServer := func() {
		if !serverClosed {
			serverClosed = true
			closeObj("server", func() { bd.S.Close() })
		}
	}

	var clients []*gortsplib.Client
	var peers []*bed.Peer
	var stopWriters atomic.Bool
	var wwg sync.WaitGroup
	spec := &bed.PacketSpec{MaxPL: 1000}
	spec.Seq0[1], spec.Seq0[2] = 100, 200

	switch sc.Kind {
	case "idle":
	case "handshake":
		for i := 0; i < 3; i++ {
			p, err := bd.Dial()
			if err != nil {
				return err
			}
			peers = append(peers, p)
			switch i {
			case 1:
				p.N.Write([]byte("OPTIONS rtsp://" + bd.IP)) // a request that never ends
			case 2:
				p.Do(&base.Request{Method: base.Describe, URL: bed.MustURL(bd.URL("stream"))})
				th := headers.Transport{Protocol: headers.TransportProtocolTCP}
				p.Do(&base.Request{Method: base.Setup, URL: bed.MustURL(bd.URL("stream") + "/trackID=0"),
					Header: base.Header{"Transport": th.Marshal()}})
			}
		}
	case "tunnelabort":
		p, get, post, err := bd.DialTunnelHTTP()
		if err != nil {
			return fmt.Errorf("c13: tunnel (%+v): %w", sc, err)
		}
		peers = append(peers, p)
		r := p.Do(&base.Request{Method: base.Options, URL: bed.MustURL(bd.URL("stream"))})
		if r.Res == nil || r.Res.StatusCode != base.StatusOK {
			return fmt.Errorf("c13: tunnel peer: OPTIONS failed (%+v)", sc)
		}
		if sc.Playing {
			th := headers.Transport{Protocol: headers.TransportProtocolTCP, InterleavedIDs: &[2]int{0, 1}}
			r = p.Do(&base.Request{Method: base.Setup, URL: bed.MustURL(bd.URL("stream") + "/trackID=0"),
				Header: base.Header{"Transport": th.Marshal()}})
			if r.Res == nil || r.Res.StatusCode != base.StatusOK {
				return fmt.Errorf("c13: tunnel peer setup failed")
			}
			var sh headers.Session
			if err := sh.Unmarshal(r.Res.Header["Session"]); err != nil {
				return fmt.Errorf("c13: tunnel peer: bad Session header")
			}
			r = p.Do(&base.Request{Method: base.Play, URL: bed.MustURL(bd.URL("stream")),
				Header: base.Header{"Session": base.HeaderValue{sh.Session}}})
			if r.Res == nil || r.Res.StatusCode != base.StatusOK {
				return fmt.Errorf("c13: tunnel peer play failed")
			}
			for i := 1; i <= 20; i++ {
				bd.Stream.WritePacketRTP(bd.Desc.Medias[0], spec.Make(1, i, 96))
			}
		}
		// the abort: RST (linger 0) or FIN of the TCP connection underneath, no TLS farewell
		abort := func(c net.Conn, rst bool) {
			if tc, ok := c.(*net.TCPConn); ok && rst {
				tc.SetLinger(0) //nolint:errcheck
			}
			c.Close()
		}
		switch sc.Abort {
		case "post_rst":
			abort(post, true)
		case "get_rst":
			abort(get, true)
		case "post_fin":
			abort(post, false)
		case "get_fin":
			abort(get, false)
		default:
			abort(post, true)
			abort(get, true)
		}
		// (the server notices, or not yet, before the first Close below)
		time.Sleep(time.Duration(rng.Intn(30)) * time.Millisecond)
	case "stuck":
		// a peer that sets up, plays over TCP and then never reads again
		p, err := bd.Dial()
		if err != nil {
			return err
		}
		peers = append(peers, p)
		th := headers.Transport{Protocol: headers.TransportProtocolTCP, InterleavedIDs: &[2]int{0, 1}}
		r := p.Do(&base.Request{Method: base.Setup, URL: bed.MustURL(bd.URL("stream") + "/trackID=0"),
			Header: base.Header{"Transport": th.Marshal()}})
		if r.Res == nil || r.Res.StatusCode != base.StatusOK {
			return fmt.Errorf("c13: stuck peer setup failed")
		}
		var sh headers.Session
		if err := sh.Unmarshal(r.Res.Header["Session"]); err != nil {
			return fmt.Errorf("c13: stuck peer: bad Session header")
		}
		r = p.Do(&base.Request{Method: base.Play, URL: bed.MustURL(bd.URL("stream")),
			Header: base.Header{"Session": base.HeaderValue{sh.Session}}})
		if r.Res == nil || r.Res.StatusCode != base.StatusOK {
			return fmt.Errorf("c13: stuck peer play failed")
		}
		// flood: the peer's receive window and the session's queue fill up
		for i := 1; i <= 6000; i++ {
			bd.Stream.WritePacketRTP(bd.Desc.Medias[0], spec.Make(1, i, 96))
		}
	case "play", "ctunnelabort":
		for i := 0; i < sc.N; i++ {
			proto := sc.Proto
			if i < len(sc.Mix) {
				proto = sc.Mix[i]
			}
			rcfg := bed.ReaderCfg{Proto: proto, Tunnel: sc.Tunnel, Timeout: 5 * time.Second}
			if proto == "udp" {
				// the client's own UDP sockets are tracked (every one it opens must be closed by
				// Close), and the first bind of an odd (RTCP) port fails in half of the scenarios,
				// as it does when that port is taken: the client then moves on to another pair
				failOdd := sc.Seed%2 == 0
				rcfg.Extra = func(c *gortsplib.Client) {
					c.ListenPacket = func(network, address string) (net.PacketConn, error) {
						if _, ps, err := net.SplitHostPort(address); err == nil && failOdd {
							if pn, _ := strconv.Atoi(ps); pn%2 == 1 {
								failOdd = false
								return nil, fmt.Errorf("listen %s: address already in use", address)
							}
						}
						pc, err := net.ListenPacket(network, address)
						if err != nil {
							return nil, err
						}
						return socks.track(pc), nil
					}
				}
			}
			udpExtra := rcfg.Extra
			rcfg.Extra = func(c *gortsplib.Client) {
				if udpExtra != nil {
					udpExtra(c)
				}
				c.DialContext = func(ctx context.Context, network, address string) (net.Conn, error) {
					nc, err := (&net.Dialer{}).DialContext(ctx, network, address)
					if err != nil {
						return nil, err
					}
					dialed.mu.Lock()
					dialed.n++
					dialed.mu.Unlock()
					return &c13conn{Conn: nc, a: dialed}, nil
				}
			}
			rd, err := bd.NewReader(rcfg,
				"stream", func(_ *description.Media, _ format.Format, _ *rtp.Packet) {})
			if err != nil {
				return fmt.Errorf("c13: reader (%+v): %w", sc, err)
			}
			if _, err = rd.C.Play(nil); err != nil {
				return fmt.Errorf("c13: play (%+v): %w", sc, err)
			}
			clients = append(clients, rd.C)
		}
		if sc.Kind == "ctunnelabort" {
			// the tunnel's GET half was accepted first, its POST half second (the last two
			// connections: an earlier attempt of the reader may have left two closed ones)
			get, post := accepted.nth(-2), accepted.nth(-1)
			abort := func(c *c13conn, rst bool) {
				if c == nil {
					return
				}
				if tc, ok := c.Conn.(*net.TCPConn); ok && rst {
					tc.SetLinger(0) //nolint:errcheck
				}
				c.Conn.Close() // (underneath the server: its own Close of this connection still counts)
			}
			switch sc.Abort {
			case "post_rst":
				abort(post, true)
			case "get_rst":
				abort(get, true)
			case "post_fin":
				abort(post, false)
			case "get_fin":
				abort(get, false)
			default:
				abort(post, true)
				abort(get, true)
			}
			time.Sleep(time.Duration(20+rng.Intn(60)) * time.Millisecond) // the client notices, or not yet
		}
		wwg.Add(1)
		go func() {
			defer wwg.Done()
			for i := 1; !stopWriters.Load(); i++ {
				bd.Stream.WritePacketRTP(bd.Desc.Medias[0], spec.Make(1, i, 96))
				if i%16 == 0 {
					time.Sleep(50 * time.Microsecond)
				}
			}
		}()
	case "record":
		c := &gortsplib.Client{ReadTimeout: 5 * time.Second, WriteTimeout: 5 * time.Second}
		if sc.TLS {
			c.TLSConfig = bed.ClientTLS()
		}
		p := gortsplib.ProtocolTCP
		if sc.Proto == "udp" {
			p = gortsplib.ProtocolUDP
		}
		c.Protocol = &p
		switch sc.Tunnel {
		case "http":
			c.Tunnel = gortsplib.TunnelHTTP
		case "ws":
			c.Tunnel = gortsplib.TunnelWebSocket
		}
		pdesc := bed.DefaultDesc(2)
		if err := c.StartRecording(bd.URL("pub"), pdesc); err != nil {
			return fmt.Errorf("c13: StartRecording (%+v): %w", sc, err)
		}
		clients = append(clients, c)
		wwg.Add(1)
		go func() {
			defer wwg.Done()
			for i := 1; !stopWriters.Load(); i++ {
				if c.WritePacketRTP(pdesc.Medias[0], spec.Make(1, i, 96)) != nil {
					return
				}
				if i%8 == 0 {
					time.Sleep(30 * time.Microsecond)
				}
			}
		}()
	}

	// pause / resume cycles (PLAY - PAUSE - PLAY, RECORD - PAUSE - RECORD): each one stops and
	// restarts the session's transport and writer
	for cy := 0; cy < sc.Cycles; cy++ {
		time.Sleep(time.Duration(rng.Intn(1500)) * time.Microsecond)
		for _, c := range clients {
			if _, err := c.Pause(); err != nil {
				return fmt.Errorf("c13: pause (%+v): %w", sc, err)
			}
			if sc.Kind == "record" {
				if _, err := c.Record(); err != nil {
					return fmt.Errorf("c13: record again (%+v): %w", sc, err)
				}
			} else if _, err := c.Play(nil); err != nil {
				return fmt.Errorf("c13: play again (%+v): %w", sc, err)
			}
		}
	}

	// the moment of the first Close
	time.Sleep(time.Duration(rng.Intn(4000)) * time.Microsecond)
	switch {
	case sc.Closer == "stream" && sc.Kind != "record":
		closeObj("stream", func() { bd.Stream.Close() })
	case sc.Closer == "client" && len(clients) > 0:
		c := clients[rng.Intn(len(clients))]
		closeObj("client", func() { c.Close() })
	case sc.Closer == "teardown" && sc.Kind == "record":
		// the peer tears the session down: closing the publisher sends TEARDOWN
		closeObj("client", func() { clients[0].Close() })
	default:
		closeServer()
	}
	time.Sleep(time.Duration(rng.Intn(1500)) * time.Microsecond)
	stopWriters.Store(true)
	wwg.Wait()

	// close everything else
	for _, c := range clients {
		closeObj("client", func() { c.Close() })
	}
	for _, p := range peers {
		p.Close()
	}
	if sc.Kind != "record" {
		closeObj("stream", func() { bd.Stream.Close() })
	}
	closeServer()
	if sc.Seed%3 == 0 {
		// Close once more on objects that are closed already: it must return as well
		for _, c := range clients {
			closeObj("client", func() { c.Close() })
		}
		closeObj("stream", func() { bd.Stream.Close() })
		closeObj("server", func() { bd.S.Close() })
	}

	// census: library goroutines that outlive their objects, ports still bound
	left := 0
	for i := 0; i < 400; i++ {
		left = c13libGoroutines() - base0
		if left <= 0 {
			left = 0
			break
		}
		time.Sleep(5 * time.Millisecond)
	}
	// (a connection's goroutine has ended by now; its socket is closed by then)
	conns := accepted.open() + dialed.open()
	for i := 0; i < 200 && conns > 0; i++ {
		time.Sleep(5 * time.Millisecond)
		conns = accepted.open() + dialed.open()
	}
	tr.Emit("census", "goroutines", left, "ports", c13portsBusy(bd.IP, bd.Port, bd.UDPPort)+socks.open()+conns)
	bd.SetTrace(nil)
	tr.Emit("end")
	return nil
}

// c13accepted counts the connections a server accepted and has not closed yet.
type c13accepted struct {
	mu    sync.Mutex
	n     int
	conns []*c13conn
}

// nth returns the i-th accepted connection, counted from the end when negative (nil if there were fewer).
func (a *c13accepted) nth(i int) *c13conn {
	a.mu.Lock()
	defer a.mu.Unlock()
	if i < 0 {
		i += len(a.conns)
	}
	if i >= 0 && i < len(a.conns) {
		return a.conns[i]
	}
	return nil
}

func (a *c13accepted) open() int {
	a.mu.Lock()
	defer a.mu.Unlock()
	return a.n
}

type c13listener struct {
	net.Listener
	a *c13accepted
}

func (l *c13listener) Accept() (net.Conn, error) {
	c, err := l.Listener.Accept()
	if err != nil {
		return nil, err
	}
	cc := &c13conn{Conn: c, a: l.a}
	l.a.mu.Lock()
	l.a.n++
	l.a.conns = append(l.a.conns, cc)
	l.a.mu.Unlock()
	return cc, nil
}

type c13conn struct {
	net.Conn
	a    *c13accepted
	once sync.Once
}

func (c *c13conn) Close() error {
	c.once.Do(func() {
		c.a.mu.Lock()
		c.a.n--
		c.a.mu.Unlock()
	})
	return c.Conn.Close()
}

// c13socks tracks the packet connections a client opened through its ListenPacket hook.
type c13socks struct {
	mu sync.Mutex
	n  int
}

type c13sock struct {
	net.PacketConn
	s    *c13socks
	once sync.Once
}

func (s *c13socks) track(pc net.PacketConn) net.PacketConn {
	s.mu.Lock()
	s.n++
	s.mu.Unlock()
	return &c13sock{PacketConn: pc, s: s}
}

func (s *c13socks) open() int {
	s.mu.Lock()
	defer s.mu.Unlock()
	return s.n
}

func (c *c13sock) Close() error {
	c.once.Do(func() {
		c.s.mu.Lock()
		c.s.n--
		c.s.mu.Unlock()
	})
	return c.PacketConn.Close()
}

// the library type-asserts these on its UDP sockets
func (c *c13sock) SyscallConn() (syscall.RawConn, error) {
	if u, ok := c.PacketConn.(*net.UDPConn); ok {
		return u.SyscallConn()
	}
	return nil, fmt.Errorf("not a UDP connection")
}

func (c *c13sock) SetReadBuffer(n int) error {
	if u, ok := c.PacketConn.(*net.UDPConn); ok {
		return u.SetReadBuffer(n)
	}
	return nil
}
