package main

// C05 driver: stream descriptions survive the SDP round trip; parsing is total.
// Code under test: pkg/description (Session, Media), pkg/format (every format),
// pkg/sdpunmarshaler.
//
// Inputs (-in fileA,fileB), two TLC generators told apart by their JSON shape:
//
//  (1) SDP line-key sequences from SDPLines.tla
//      {"keys":["v","o","m","a"],"accept":true,"attrs":[1],"medias":1}
//      Every key is concretised with a VALID value line (c05lineDoc: a pure function of
//      the key sequence), the document goes through sdpunmarshaler.Unmarshal +
//      description.Session.Unmarshal2; when both accept it the description is marshalled,
//      parsed again and compared (value and bytes).
//      event: sdpparse{accepted, stable, panic, why="lines"}
//      The model's prediction (accept, attribute placement, number of medias) is NOT part
//      of the verdict: it only feeds the counter printed as DRIVER-STAT model_drift=N.
//      The same procedure runs on seeded MUTATIONS of valid SDP documents taken from the
//      repository's test vectors (why="mutated") and on the same documents with ONE parameter
//      value (fmtp parameter, rtpmap, key-mgmt) truncated at EVERY length (why="truncated") or
//      ONE white-space character inserted at every token boundary of an fmtp / rtpmap line
//      (why="whitespace").
//
//  (2) presence vectors from FieldVectors.tla {"present":[..],"cls":..,"variant":k}
//      A description is built from the vector (c05build: 1..3 medias, 1..2 formats each out
//      of the 22 format types, optional fields per presence bit, numeric fields per class
//      mapped into the field's valid range, parameter sets / configs only from the
//      repository's test vectors), marshalled, parsed back and compared; the parsed value
//      is marshalled and parsed once more (idempotence).
//      event: sdprt{eq, idem, panic, why = "ok" | first component that differs}
//
// NORMALISATIONS applied before comparing descriptions (c05diff / c05canon / c05build):
//  N1 Session.BaseURL is not carried by the SDP (the client fills it from Content-Base):
//     never set, only its nil-ness is compared.
//  N2 Session.Multicast: Marshal writes it as the c= address, Unmarshal2 does not read it
//     back (a server-side setting): excluded from the comparison.
//  N3 nil and empty slices / maps are the same value (FECGroups, Generic.FMT, MIKEY slices).
//  N4 only exported fields are compared (formats carry a mutex / an `unused` field).
//  N5 MPEG4Audio.ProfileLevelID 0 means "not given" (it is what parsing an fmtp without
//     profile-level-id yields): Marshal writes the default 1 (FMTP: "support legacy definition
//     which didn't include profile-level-id", pinned by the repository's own test vector
//     "audio aac from AVOIP"), so 0 and 1 compare equal.
//  N6 IsBackChannel is only ever set on a proper subset of the medias: Unmarshal2 unmarks
//     the back channels of a description in which every media is one (by design, for
//     cameras that mark everything sendonly).
//
// The driver only observes; SDPTrace.tla judges.

import (
	"bytes"
	"encoding/base64"
	"encoding/hex"
	"encoding/json"
	"fmt"
	"math/rand"
	"os"
	"reflect"
	"runtime/debug"
	"sort"
	"strconv"
	"strings"

	"github.com/bluenviron/gortsplib/v5/pkg/description"
	"github.com/bluenviron/gortsplib/v5/pkg/format"
	"github.com/bluenviron/gortsplib/v5/pkg/headers"
	"github.com/bluenviron/gortsplib/v5/pkg/mikey"
	"github.com/bluenviron/gortsplib/v5/pkg/sdpunmarshaler"
	"github.com/bluenviron/mediacommon/v2/pkg/codecs/mpeg4audio"

	"verifharness/internal/vt"
)

func init() { drivers["c05"] = driveC05 }

const (
	c05ParseChunk  = 200   // documents per trace
	c05RtChunk     = 100   // descriptions per trace
	c05QuickSample = 4     // quick tier: 1 in N accepted-and-stable line sequences is logged
	c05MutQuick    = 800   // mutated documents, quick tier
	c05MutThorough = 20000 // mutated documents, thorough tier
	c05MaxDetail   = 60    // lines of detail printed on stderr for results that will be rejected
)

// c05beh is the union of the two behaviour shapes.
type c05beh struct {
	Keys    []string `json:"keys"`
	Accept  bool     `json:"accept"`
	Attrs   []int    `json:"attrs"`
	Medias  int      `json:"medias"`
	Present []bool   `json:"present"`
	Cls     string   `json:"cls"`
	Variant int      `json:"variant"`
}

// c05seq is one line-key sequence (K: one character per line) with the model's prediction.
type c05seq struct {
	K  string `json:"k"`
	A  bool   `json:"a"`
	At []int  `json:"at,omitempty"`
	M  int    `json:"m"`
}

// c05vec is one presence vector: P bit i = i-th presence bit of N.
type c05vec struct {
	P int    `json:"p"`
	N int    `json:"n"`
	C string `json:"c"`
	V int    `json:"v"`
}

// c05replay is the replay descriptor of one trace.
type c05replay struct {
	Kind string   `json:"kind"`           // "lines" | "mut" | "trunc" | "rt"
	Seqs []c05seq `json:"seqs,omitempty"` // lines
	Seed int64    `json:"seed,omitempty"` // mut: mutated document i is a function of (seed, i)
	From int      `json:"from,omitempty"` // mut, trunc: first index
	N    int      `json:"n,omitempty"`    // mut, trunc: how many
	Vecs []c05vec `json:"vecs,omitempty"` // rt
}

var (
	c05details int
	c05dump    = os.Getenv("C05_DUMP") != "" // debugging aid: every document and its outcome on stderr
	c05fmtUse  = map[string]int{}            // how often each format type went through the round trip
)

func c05detail(f string, a ...any) {
	if c05details < c05MaxDetail {
		c05details++
		fmt.Fprintf(os.Stderr, "C05-DETAIL "+f+"\n", a...)
	}
}

func driveC05(a *args, s *vt.Sink) error {
	if err := c05initVectors(); err != nil {
		return err
	}
	if a.replay != "" {
		var r c05replay
		if err := json.Unmarshal([]byte(a.replay), &r); err != nil {
			return err
		}
		switch r.Kind {
		case "lines":
			c05linesTrace(s, "c05/replay", r.Seqs, nil, 1)
			return nil
		case "mut":
			c05mutTrace(s, "c05/replay", r.Seed, r.From, r.N)
			return nil
		case "trunc":
			c05truncTrace(s, "c05/replay", r.From, r.N)
			return nil
		case "rt":
			return c05rtTrace(s, "c05/replay", r.Vecs)
		}
		return fmt.Errorf("c05: unknown replay kind %q", r.Kind)
	}
	if a.in == "" {
		return fmt.Errorf("c05 needs -in")
	}
	lines, err := readLines(a.in)
	if err != nil {
		return err
	}
	var seqs []c05seq
	var vecs []c05vec
	for _, l := range lines {
		var b c05beh
		if err := json.Unmarshal([]byte(l), &b); err != nil {
			return fmt.Errorf("c05: %v in %.80q", err, l)
		}
		switch {
		case b.Keys != nil:
			for _, k := range b.Keys {
				if len(k) != 1 {
					return fmt.Errorf("c05: key %q is not one letter", k)
				}
			}
			seqs = append(seqs, c05seq{K: strings.Join(b.Keys, ""), A: b.Accept, At: b.Attrs, M: b.Medias})
		case b.Present != nil || b.Cls != "":
			v := c05vec{C: b.Cls, V: b.Variant, N: len(b.Present)}
			if v.N > 30 {
				v.N = 30
			}
			for i, p := range b.Present {
				if p && i < 30 {
					v.P |= 1 << i
				}
			}
			if _, err := c05cls(v.C); err != nil {
				return err
			}
			vecs = append(vecs, v)
		default:
			return fmt.Errorf("c05: unknown behaviour shape %.80q", l)
		}
	}

	// ---- (1a) line sequences ----
	sample := 1
	if a.tier != "thorough" {
		sample = c05QuickSample
	}
	rng := rand.New(rand.NewSource(a.seed))
	drift := 0
	for i := 0; i < len(seqs); i += c05ParseChunk {
		j := min(i+c05ParseChunk, len(seqs))
		drift += c05linesTrace(s, "c05/parse", seqs[i:j], rng, sample)
	}

	// ---- (1b) mutated documents ----
	n := a.n
	if n == 0 {
		n = c05MutQuick
		if a.tier == "thorough" {
			n = c05MutThorough
		}
	}
	for i := 0; i < n; i += c05ParseChunk {
		c05mutTrace(s, "c05/parse", a.seed, i, min(c05ParseChunk, n-i))
	}

	// ---- (1c) truncated parameter values, white space at token boundaries ----
	nt := len(c05truncCases())
	for i := 0; i < nt; i += c05ParseChunk {
		c05truncTrace(s, "c05/parse", i, min(c05ParseChunk, nt-i))
	}

	// ---- (2) presence vectors ----
	for i := 0; i < len(vecs); i += c05RtChunk {
		j := min(i+c05RtChunk, len(vecs))
		if err := c05rtTrace(s, "c05/rt", vecs[i:j]); err != nil {
			return err
		}
	}
	fmt.Printf("DRIVER-STAT model_drift=%d\n", drift)
	names := make([]string, 0, len(c05fmtUse))
	for k := range c05fmtUse {
		names = append(names, k)
	}
	sort.Strings(names)
	for i, k := range names {
		names[i] = k + ":" + strconv.Itoa(c05fmtUse[k])
	}
	fmt.Printf("DRIVER-STAT rt_format_types=%d rt_format_uses=%s\n", len(names), strings.Join(names, ","))
	return nil
}

// ===================================================================
// parsing, marshalling (every call into the library is guarded), comparing
// ===================================================================

type c05parsed struct {
	sdpOK    bool // sdpunmarshaler.Unmarshal accepted the text
	ok       bool // ... and Session.Unmarshal2 accepted the result
	panicked bool
	err      string
	d        *description.Session
	placed   []int // section of every attribute in document order (0 session, n = n-th media)
	medias   int
}

// c05lastPanicFn names the library function in which the last recovered panic was raised
// (the driver is single-threaded while parsing): it makes known-finding keys specific.
var c05lastPanicFn string

func c05panicFrame(stack []byte) string {
	for _, ln := range strings.Split(string(stack), "\n") {
		if strings.HasPrefix(ln, "github.com/bluenviron/") && !strings.Contains(ln, "verifharness") {
			fn := ln
			if i := strings.Index(fn, "("); i > 0 {
				fn = fn[:i]
			}
			if i := strings.LastIndex(fn, "/"); i >= 0 {
				fn = fn[i+1:]
			}
			return fn
		}
	}
	return "unknown"
}

// c05why refines the class of a case with what went wrong, so that a known finding does not
// hide a different failure of the same input class.
func c05why(class string, accepted, stable, panicked bool, diff string) string {
	switch {
	case panicked:
		return class + "/panic:" + c05lastPanicFn
	case accepted && !stable:
		d := diff
		if i := strings.IndexAny(d, " .:["); i > 0 {
			d = d[:i]
		}
		return class + "/unstable:" + d
	}
	return class
}

func c05parse(doc []byte) (r c05parsed) {
	defer func() {
		if p := recover(); p != nil {
			r.ok, r.panicked, r.err, r.d = false, true, "panic: "+fmt.Sprint(p), nil
			c05lastPanicFn = c05panicFrame(debug.Stack())
		}
	}()
	sd, err := sdpunmarshaler.Unmarshal(doc)
	if err != nil {
		r.err = err.Error()
		return r
	}
	r.sdpOK = true
	r.medias = len(sd.MediaDescriptions)
	for range sd.Attributes {
		r.placed = append(r.placed, 0)
	}
	for i, md := range sd.MediaDescriptions {
		for range md.Attributes {
			r.placed = append(r.placed, i+1)
		}
	}
	var d description.Session
	if err = d.Unmarshal2(sd); err != nil {
		r.err = err.Error()
		return r
	}
	r.ok, r.d = true, &d
	return r
}

func c05marshal(d *description.Session) (out []byte, err error, panicked bool) {
	defer func() {
		if p := recover(); p != nil {
			out, err, panicked = nil, fmt.Errorf("panic: %v", p), true
		}
	}()
	out, err = d.Marshal()
	return out, err, false
}

// c05canon renders the exported content of a value (N3, N4): pointers are followed, nil and
// empty slices / maps render alike, map entries are sorted, structs carry their type name.
func c05canon(x any) string {
	var b strings.Builder
	c05canonV(&b, reflect.ValueOf(x))
	return b.String()
}

func c05canonV(b *strings.Builder, v reflect.Value) {
	switch v.Kind() {
	case reflect.Invalid:
		b.WriteString("nil")
	case reflect.Pointer, reflect.Interface:
		if v.IsNil() {
			b.WriteString("nil")
			return
		}
		if v.Kind() == reflect.Pointer {
			b.WriteByte('&')
		}
		c05canonV(b, v.Elem())
	case reflect.Struct:
		t := v.Type()
		b.WriteString(t.Name())
		b.WriteByte('{')
		for i := 0; i < t.NumField(); i++ {
			if !t.Field(i).IsExported() {
				continue
			}
			b.WriteString(t.Field(i).Name)
			b.WriteByte(':')
			c05canonV(b, v.Field(i))
			b.WriteByte(';')
		}
		b.WriteByte('}')
	case reflect.Slice, reflect.Array:
		if v.Type().Elem().Kind() == reflect.Uint8 {
			b.WriteByte('x')
			for i := 0; i < v.Len(); i++ {
				fmt.Fprintf(b, "%02x", v.Index(i).Uint())
			}
			return
		}
		b.WriteByte('[')
		for i := 0; i < v.Len(); i++ {
			c05canonV(b, v.Index(i))
			b.WriteByte(',')
		}
		b.WriteByte(']')
	case reflect.Map:
		keys := v.MapKeys()
		strs := make([]string, len(keys))
		idx := map[string]reflect.Value{}
		for i, k := range keys {
			strs[i] = fmt.Sprint(k.Interface())
			idx[strs[i]] = k
		}
		sort.Strings(strs)
		b.WriteByte('{')
		for _, k := range strs {
			b.WriteString(strconv.Quote(k))
			b.WriteByte(':')
			c05canonV(b, v.MapIndex(idx[k]))
			b.WriteByte(',')
		}
		b.WriteByte('}')
	case reflect.String:
		b.WriteString(strconv.Quote(v.String()))
	case reflect.Bool:
		b.WriteString(strconv.FormatBool(v.Bool()))
	case reflect.Int, reflect.Int8, reflect.Int16, reflect.Int32, reflect.Int64:
		b.WriteString(strconv.FormatInt(v.Int(), 10))
	case reflect.Uint, reflect.Uint8, reflect.Uint16, reflect.Uint32, reflect.Uint64:
		b.WriteString(strconv.FormatUint(v.Uint(), 10))
	default:
		fmt.Fprintf(b, "%v", v.Interface())
	}
}

// c05canonFormat: c05canon plus N5.
func c05canonFormat(f format.Format) string {
	if a, ok := f.(*format.MPEG4Audio); ok && a != nil && a.ProfileLevelID == 0 {
		return c05canon(&format.MPEG4Audio{PayloadTyp: a.PayloadTyp, ProfileLevelID: 1, Config: a.Config,
			SizeLength: a.SizeLength, IndexLength: a.IndexLength, IndexDeltaLength: a.IndexDeltaLength})
	}
	return c05canon(f)
}

func c05fmtName(f format.Format) string {
	t := reflect.TypeOf(f)
	if t == nil {
		return "nil"
	}
	if t.Kind() == reflect.Pointer {
		t = t.Elem()
	}
	return t.Name()
}

// c05diff names the first component in which two descriptions differ ("" = equal):
// "session:<Field>", "media:<Field>" or the type name of the format of `a` that differs.
func c05diff(a, b *description.Session) string {
	switch {
	case (a.BaseURL == nil) != (b.BaseURL == nil): // N1
		return "session:BaseURL"
	case a.Title != b.Title:
		return "session:Title"
	// N2: Multicast is not compared
	case c05canon(a.KeyMgmtMikey) != c05canon(b.KeyMgmtMikey):
		return "session:KeyMgmtMikey"
	case c05canon(a.FECGroups) != c05canon(b.FECGroups):
		return "session:FECGroups"
	case len(a.Medias) != len(b.Medias):
		return "session:Medias"
	}
	for j := range a.Medias {
		ma, mb := a.Medias[j], b.Medias[j]
		switch {
		case ma == nil || mb == nil:
			if ma != mb {
				return "session:Medias"
			}
			continue
		case ma.Type != mb.Type:
			return "media:Type"
		case ma.ID != mb.ID:
			return "media:ID"
		case ma.IsBackChannel != mb.IsBackChannel:
			return "media:IsBackChannel"
		case ma.Profile != mb.Profile:
			return "media:Profile"
		case c05canon(ma.KeyMgmtMikey) != c05canon(mb.KeyMgmtMikey):
			return "media:KeyMgmtMikey"
		case ma.Control != mb.Control:
			return "media:Control"
		case len(ma.Formats) != len(mb.Formats):
			return "media:Formats"
		}
		for k := range ma.Formats {
			if c05canonFormat(ma.Formats[k]) != c05canonFormat(mb.Formats[k]) {
				return c05fmtName(ma.Formats[k])
			}
		}
	}
	return ""
}

// c05res is the observation for one SDP text.
type c05res struct {
	accepted, stable, panicked bool
	diff                       string // why it is not stable ("" if stable or not accepted)
	first                      c05parsed
}

// c05check: parse; if accepted marshal, parse again, compare value and bytes.
func c05check(doc []byte) (r c05res) {
	p1 := c05parse(doc)
	r.first, r.panicked = p1, p1.panicked
	if !p1.ok {
		return r
	}
	r.accepted = true
	m1, err, pn := c05marshal(p1.d)
	r.panicked = r.panicked || pn
	if err != nil {
		r.diff = "marshal_error"
		return r
	}
	p2 := c05parse(m1)
	r.panicked = r.panicked || p2.panicked
	if !p2.ok {
		r.diff = "reparse_error"
		c05detail("reparse_error: %s\n--- marshalled:\n%s", p2.err, c05clip(m1))
		return r
	}
	r.diff = c05diff(p1.d, p2.d)
	if r.diff == "" {
		m2, err2, pn2 := c05marshal(p2.d)
		r.panicked = r.panicked || pn2
		if err2 != nil || !bytes.Equal(m1, m2) {
			r.diff = "bytes"
		}
	}
	r.stable = r.diff == ""
	return r
}

func c05clip(b []byte) string {
	if len(b) > 1500 {
		return string(b[:1500]) + "...(clipped)"
	}
	return string(b)
}

// ===================================================================
// (1a) line-key sequences
// ===================================================================

// c05lineDoc concretises a key sequence; a pure function of the sequence. Every value is
// valid for its line type. The first a-line after an m-line gives the media a usable format,
// the second one a control attribute; every other a-line is unique.
func c05lineDoc(keys string) []byte {
	var b strings.Builder
	medias, aInMedia, nAttr := 0, 0, 0
	for i := 0; i < len(keys); i++ {
		switch keys[i] {
		case 'v':
			b.WriteString("v=0")
		case 'o':
			b.WriteString("o=- 0 0 IN IP4 127.0.0.1")
		case 's':
			b.WriteString("s=Stream")
		case 'i':
			b.WriteString("i=title")
		case 'u':
			b.WriteString("u=http://x")
		case 'e':
			b.WriteString("e=a@b")
		case 'p':
			b.WriteString("p=+1 555")
		case 'c':
			b.WriteString("c=IN IP4 0.0.0.0")
		case 'b':
			b.WriteString("b=AS:500")
		case 't':
			b.WriteString("t=0 0")
		case 'r':
			b.WriteString("r=604800 3600 0 90000")
		case 'z':
			b.WriteString("z=0 0")
		case 'k':
			b.WriteString("k=prompt")
		case 'm':
			b.WriteString("m=video 0 RTP/AVP 96")
			medias++
			aInMedia = 0
		case 'a':
			nAttr++
			switch {
			case medias == 0:
				fmt.Fprintf(&b, "a=tool:x%d", nAttr)
			case aInMedia == 0:
				b.WriteString("a=rtpmap:96 H264/90000")
			case aInMedia == 1:
				fmt.Fprintf(&b, "a=control:trackID=%d", medias)
			default:
				fmt.Fprintf(&b, "a=x-attr:%d", nAttr)
			}
			if medias > 0 {
				aInMedia++
			}
		default: // an invalid key letter
			b.WriteString("q=bad")
		}
		b.WriteString("\r\n")
	}
	return []byte(b.String())
}

func c05intsEq(a, b []int) bool {
	if len(a) != len(b) {
		return false
	}
	for i := range a {
		if a[i] != b[i] {
			return false
		}
	}
	return true
}

// c05linesTrace logs one trace and returns how many sequences the model predicted differently
// (accept / reject of the reader, number of medias, placement of the attributes).
// rng == nil or sample == 1: everything is logged; otherwise accepted-and-stable results are
// logged 1 in `sample`, the others always.
func c05linesTrace(s *vt.Sink, class string, seqs []c05seq, rng *rand.Rand, sample int) (drift int) {
	desc, _ := json.Marshal(c05replay{Kind: "lines", Seqs: seqs})
	tr := s.Begin(class, string(desc))
	defer tr.End()
	for _, q := range seqs {
		r := c05check(c05lineDoc(q.K))
		if r.first.sdpOK != q.A || (q.A && (r.first.medias != q.M || !c05intsEq(r.first.placed, q.At))) {
			drift++
			c05detail("model drift: keys=%q model accept=%v medias=%d attrs=%v; reader accept=%v medias=%d attrs=%v err=%s",
				q.K, q.A, q.M, q.At, r.first.sdpOK, r.first.medias, r.first.placed, r.first.err)
		}
		keep := true
		if rng != nil && sample > 1 {
			keep = rng.Intn(sample) == 0 // drawn for every result, so the stream does not depend on outcomes
		}
		good := r.accepted && r.stable && !r.panicked
		if !good && (r.panicked || r.accepted) {
			c05detail("lines keys=%q accepted=%v stable=%v panic=%v diff=%s err=%s", q.K, r.accepted, r.stable, r.panicked, r.diff, r.first.err)
		}
		if keep || !good {
			tr.Emit("sdpparse", "accepted", r.accepted, "stable", r.stable, "panic", r.panicked, "why", c05why("lines", r.accepted, r.stable, r.panicked, r.diff),
				"d", r.diff, "s", q.K)
		}
		// the same sequence with the value of ONE line degraded - left empty, or cut after its
		// first field: whatever tolerance the reader shows for such a line, the lines that
		// follow must still be handled without a panic (logged when something is wrong)
		if len(q.K) <= 6 {
			lines := strings.Split(strings.TrimSuffix(string(c05lineDoc(q.K)), "\r\n"), "\r\n")
			for li, l := range lines {
				val := l[2:]
				for _, dv := range []string{"", strings.SplitN(val, " ", 2)[0]} {
					if dv == val {
						continue
					}
					mod := append([]string(nil), lines...)
					mod[li] = l[:2] + dv
					rd := c05check([]byte(strings.Join(mod, "\r\n") + "\r\n"))
					if rd.panicked || (rd.accepted && !rd.stable) {
						c05detail("degraded line %d of keys=%q: accepted=%v stable=%v panic=%v err=%s", li, q.K, rd.accepted, rd.stable, rd.panicked, rd.first.err)
						tr.Emit("sdpparse", "accepted", rd.accepted, "stable", rd.stable, "panic", rd.panicked,
							"why", c05why("degraded", rd.accepted, rd.stable, rd.panicked, rd.diff), "d", rd.diff, "s", fmt.Sprintf("%s#%d:%q", q.K, li, dv))
					}
				}
			}
		}
	}
	tr.Emit("end")
	return drift
}

// ===================================================================
// (1b) mutated documents
// ===================================================================

// Valid documents from the repository's test vectors (pkg/description/session_test.go,
// pkg/format/format_test.go, pkg/sdpunmarshaler/sdpunmarshaler_test.go), one line per row.
var c05docs = []string{
	// one format for each media, absolute
	`v=0
o=- 0 0 IN IP4 10.0.0.131
s=Media Presentation
i=samsung
c=IN IP4 0.0.0.0
b=AS:2632
t=0 0
a=control:rtsp://10.0.100.50/profile5/media.smp
a=range:npt=now-
m=video 42504 RTP/AVP 97
b=AS:2560
a=rtpmap:97 H264/90000
a=control:rtsp://10.0.100.50/profile5/media.smp/trackID=v
a=cliprect:0,0,1080,1920
a=framesize:97 1920-1080
a=framerate:30.0
a=fmtp:97 packetization-mode=1;profile-level-id=640028;sprop-parameter-sets=Z2QAKKy0A8ARPyo=,aO4Bniw=
m=audio 42506 RTP/AVP 0
b=AS:64
a=rtpmap:0 PCMU/8000
a=control:rtsp://10.0.100.50/profile5/media.smp/trackID=a
a=recvonly
m=application 42508 RTP/AVP 107
b=AS:8
`,
	// multiple formats for each media (shortened)
	`v=0
o=- 4158123474391860926 2 IN IP4 127.0.0.1
s=
t=0 0
a=group:BUNDLE audio video
a=msid-semantic: WMS mediaSessionLocal
m=audio 9 UDP/TLS/RTP/SAVPF 111 103 9 0 8 106 126
c=IN IP4 0.0.0.0
a=rtcp:9 IN IP4 0.0.0.0
a=ice-ufrag:0D6Y
a=fingerprint:sha-256 5E:B5:97:8B:B4:D8:AE:2B:89:F6:82:44:47:69:77:83:05:29:C5:C8:EE:67:50:C3:77:6B:A7:BA:10:E3:08:B8
a=mid:audio
a=extmap:1 urn:ietf:params:rtp-hdrext:ssrc-audio-level
a=sendonly
a=rtcp-mux
a=rtpmap:111 opus/48000/2
a=rtcp-fb:111 transport-cc
a=fmtp:111 minptime=10;useinbandfec=1
a=rtpmap:103 ISAC/16000
a=rtpmap:9 G722/8000
a=rtpmap:0 PCMU/8000
a=rtpmap:8 PCMA/8000
a=rtpmap:106 CN/32000
a=rtpmap:126 telephone-event/8000
a=ssrc:3754810229 cname:CvU1TYqkVsjj5XOt
m=video 9 UDP/TLS/RTP/SAVPF 96 97 98 100 127 125
c=IN IP4 0.0.0.0
a=mid:video
a=extmap:14 urn:ietf:params:rtp-hdrext:toffset
a=rtcp-rsize
a=rtpmap:96 VP8/90000
a=rtcp-fb:96 nack pli
a=rtpmap:97 rtx/90000
a=fmtp:97 apt=96
a=rtpmap:98 VP9/90000
a=rtpmap:100 H264/90000
a=fmtp:100 level-asymmetry-allowed=1;packetization-mode=1;profile-level-id=42e01f
a=rtpmap:127 red/90000
a=rtpmap:125 ulpfec/90000
a=ssrc-group:FID 2712436124 1733091158
`,
	// multiple formats for each media 2
	`v=0
o=- 4158123474391860926 2 IN IP4 127.0.0.1
s=-
t=0 0
m=video 42504 RTP/AVP 96 98
a=rtpmap:96 H264/90000
a=rtpmap:98 MetaData
a=rtcp-mux
a=fmtp:96 packetization-mode=1;profile-level-id=4d002a;sprop-parameter-sets=Z00AKp2oHgCJ+WbgICAgQA==,aO48gA==
`,
	// issue mediamtx/5074 (real back channel)
	`v=0
o=- 1 1 IN IP4 192.168.81.194:554
s=L10013/video1 - ACES Server(SSDRTSPServer)
t=0 0
c=IN IP4 0.0.0.0
a=control:*
a=range:npt=now-
m=video 0 RTP/AVP 96
a=control:video
a=rtpmap:96 H264/90000
a=fmtp:96 sprop-parameter-sets=Z0IAHp2oKAv+WbgICAgQ,aM48gA==
a=framerate:30
a=recvonly
m=audio 0 RTP/AVP 0
a=control:audio
a=rtpmap:0 PCMU/8000
a=recvonly
m=audio 0 RTP/AVP 0
a=control:backchannel
a=rtpmap:0 PCMU/8000
a=sendonly
m=application 0 RTP/AVP 98
a=control:meta
a=rtpmap:98 vnd.onvif.metadata/90000
a=recvonly
`,
	// ulpfec rfc5109
	`v=0
o=adam 289083124 289083124 IN IP4 host.example.com
s=ULP FEC Seminar
t=0 0
c=IN IP4 224.2.17.12/127
a=group:FEC 1 2
a=group:FEC 3 4
m=audio 30000 RTP/AVP 0
a=mid:1
m=application 30002 RTP/AVP 100
a=rtpmap:100 ulpfec/8000
a=mid:2
m=video 30004 RTP/AVP 31
a=mid:3
m=application 30004 RTP/AVP 101
c=IN IP4 224.2.17.13/127
a=rtpmap:101 ulpfec/8000
a=mid:4
`,
	// key-mgmt in session
	`v=0
o=actionmovie 2891092738 2891092738 IN IP4 movie.example.com
s=Action Movie
t=0 0
c=IN IP4 movie.example.com
a=key-mgmt:mikey AQAFAHojKV4BAACVjCMnAAAAAAsA6/mdTLBeokwKEGwcAuPrxj6/enyb+A2+rNcBAAAAFQABAQEBEAIBAQMBCgcBAQgBAQoBAQAAACIAIAAeX8XvOCzIMh0JTOWivWLxEflTUSp1fjj2i8xG7D9DAA==
m=video 0 RTP/SAVP 96
a=rtpmap:96 H264/90000
a=control:trackID=0
`,
	// key-mgmt in media
	`v=0
o=actionmovie 2891092738 2891092738 IN IP4 movie.example.com
s=Action Movie
t=0 0
c=IN IP4 movie.example.com
m=video 0 RTP/SAVP 96
a=key-mgmt:mikey AQAFAHojKV4BAACVjCMnAAAAAAsA6/mdTLBeokwKEGwcAuPrxj6/enyb+A2+rNcBAAAAFQABAQEBEAIBAQMBCgcBAQgBAQoBAQAAACIAIAAeX8XvOCzIMh0JTOWivWLxEflTUSp1fjj2i8xG7D9DAA==
a=rtpmap:96 H264/90000
a=control:trackID=0
`,
	// H265 + AAC (LiveReporter / session_test)
	`v=0
o=-0 0 IN IP4 127.0.0.1
s=No Name
c=IN IP4 0.0.0.0
t=0 0
a=control:*
m=video 0 RTP/AVP/TCP 96
b=AS:253
a=rtpmap:96 H265/90000
a=fmtp:96 sprop-vps=QAEMAf//AWAAAAMAkAAAAwAAAwB4mZgJ; sprop-sps=QgEBAWAAAAMAkAAAAwAAAwB4oAPAgBDllmZpJMrgEAAAAwAQAAADAeCA; sprop-pps=RAHBcrRiQA==; sprop-max-don-diff=2
a=control:streamid=0
m=audio 0 RTP/AVP 97
b=AS:189
a=rtpmap:97 MPEG4-GENERIC/48000/1
a=fmtp:97 profile-level-id=1;mode=AAC-hbr;sizelength=13;indexLength=3;indexDeltaLength=3;config=118856E500
a=control:streamid=1
`,
	// FLIR timing, MPEG-4 video, unknown codec with fmtp
	`v=0
o=- 0 0 IN IP4 172.16.2.20
s=IR stream
i=Live infrared
c=IN IP4 172.16.2.20
t=now-
m=video 0 RTP/AVP 96 111 99
a=control:rtsp://172.16.2.20/sid=96&overlay=on
a=framerate:30
a=rtpmap:96 MP4V-ES/90000
a=framesize:96 640-480
a=fmtp:96 profile-level-id=1;config=000001B002000001B59113000001000000012000C888800F514043C14103
a=rtpmap:111 H264/90000
a=fmtp:111 profile-level-id=42001E;packetization-mode=1;sprop-parameter-sets=Z0IAHqtAUB7I,aM4xEg==
a=rtpmap:99 FCAM/90000
a=framesize:99 320-240
a=fmtp:99 sampling=mono; width=320; height=240; depth=16
`,
	// TP-Link smart payload type
	`v=0
o=- 14665860 31787219 1 IN IP4 192.168.1.102
s=Session streamed by "TP-LINK RTSP Server"
t=0 0
a=smart_encoder:virtualIFrame=1
m=application/tp-link 0 RTP/AVP smart/0/25000
a=rtpmap:95 tp-link/25000
a=control:track3
`,
	// audio formats (format_test.go, one media each)
	`v=0
o=- 0 0 IN IP4 127.0.0.1
s=audio
t=0 0
r=604800 3600 0 90000
z=2882844526 -1h 2898848070 0
m=audio 0 RTP/AVP 96
a=rtpmap:96 MP4A-LATM/24000/2
a=fmtp:96 profile-level-id=1; bitrate=64000; cpresent=0; object=2; config=400026203fc0
m=audio 0 RTP/AVP 110
a=rtpmap:110 MP4A-LATM/48000/2
a=fmtp:110 profile-level-id=44; bitrate=64000; cpresent=0; config=40005623101fe0; sbr-enabled=1
m=audio 0 RTP/AVP 96
a=rtpmap:96 MP4A-LATM/90000/1
a=fmtp:96 cpresent=1
m=audio 0 RTP/AVP 96
a=rtpmap:96 speex/16000
a=fmtp:96 vbr=off
m=audio 0 RTP/AVP 96
a=rtpmap:96 VORBIS/44100/2
a=fmtp:96 configuration=AQIDBA==
m=audio 0 RTP/AVP 96
a=rtpmap:96 multiopus/48000/6
a=fmtp:96 num_streams=4; coupled_streams=2; channel_mapping=0,4,1,2,3,5
m=audio 0 RTP/AVP 96 97 98 10 14
a=rtpmap:96 AC3/48000
a=rtpmap:97 AAL2-G726-32/8000
a=rtpmap:98 L24/44100/4
m=audio 0 RTP/AVP 96
a=rtpmap:96 mpeg4-generic/48000/2
a=fmtp:96 streamtype=5; profile-level-id=48; mode=AAC-hbr; config=eb098800; SizeLength=13
`,
	// video formats (format_test.go)
	`v=0
o=- 0 0 IN IP4 127.0.0.1
s=video
t=0 0
m=video 0 RTP/AVP 96 97 98 26 32 33
a=rtpmap:96 VP8/90000
a=fmtp:96 max-fr=123; max-fs=456
a=rtpmap:97 VP9/90000
a=fmtp:97 max-fr=123; max-fs=456; profile-id=789
a=rtpmap:98 AV1/90000
a=fmtp:98 profile=2; level-idx=8; tier=1
m=video 0 RTP/AVP 35
a=rtpmap:35 H264/90000
a=control:rtsp://10.100.14.102:554/?inst=2&h26x=4&stream=video
a=recvonly
a=fmtp:35 packetization-mode=1;profile-level-id=4d4029;sprop-parameter-sets=Z01AKY2NYDwBE/LgLcBDQECA,aO44gA==
m=application 0 RTP/AVP 97
a=rtpmap:97 SMPTE336M/90000
m=video 0 RTP/AVP 96
a=rtpmap:96 H264/90000
a=fmtp:96 packetization-mode=1; profile-level-id=4DE028; sprop-parameter-sets=AAAAAWdNAB6NjUBaHtCAAAOEAACvyAI=,AAAAAWjuOIA=
`,
}

var c05numberSubst = []string{"", "-1", "0", "1", "255", "256", "65535", "65536", "65537", "2147483647", "2147483648",
	"4294967295", "4294967296", "18446744073709551615", "18446744073709551616", "99999999999999999999999", "1e9",
	"0x10", "+5", "1.5", " 7", "07", "9/9", "٣"}

var c05valueSubst = []string{"mikey ", "mikey AQ==", "mikey !!!!", "mikey AQAFAHojKV4BAACVjCMnAAAAAAsA", "FEC ", "FEC 1 9", "FEC  ",
	"96", "96 ", " 96 H264/90000", "96  H264/90000", "96 H264/90000/", "96 /", "96 opus/48000/0", "96 opus/48000", "96 multiopus/48000/0",
	"96 multiopus/48000/255", "96 PCMA/0", "96 PCMU/8000/0", "0 PCMA/16000/2", "8 PCMU/44100", "96 L16/0/0", "96 L8", "10 L24/48000/2",
	"96 AC3/0", "96 VORBIS/1", "96 speex/", "96 speex/x", "96 mpeg4-generic", "96 mpeg4-generic/48000/2", "96 MP4A-LATM/90000/1",
	"96 MP4A-LATM/1/1", "96 H265/90000", "96 MP4V-ES/90000", "96 G726-99/8000", "96 smpte336m/1",
	"96 config=; sizelength=13", "96 config=1190", "96 config=1190; sizelength=13", "96 config=1190; sizelength=101",
	"96 cpresent=0", "96 cpresent=0; config=40", "96 cpresent=0; config=400026203fc0", "96 cpresent=1; config=400026203fc0",
	"96 cpresent=0; config=4000", "96 cpresent=0; config=ffffffffffffffffffffffff", "96 cpresent=0; config=0000000000000000",
	"96 sprop-parameter-sets=,", "96 sprop-parameter-sets=Zw==,aA==", "96 sprop-sps=", "96 sprop-sps=QgE=", "96 sprop-pps=RAE=",
	"96 sprop-vps=AAAAAQ==", "96 configuration=", "96 configuration=AQIDBA==", "96 vbr=maybe", "96 sprop-stereo=1",
	"96 profile-level-id=; config=", "96 ;;;=;=;", "96 a=b=c; A=B; a=d", "smart/1/90000", "*", "", " ", ":", "a b", "é", "\x00"}

// c05mutate derives one mutated document from the base documents.
func c05mutate(rng *rand.Rand) []byte {
	doc := c05docs[rng.Intn(len(c05docs))]
	if rng.Intn(2) == 0 {
		doc = strings.ReplaceAll(doc, "\n", "\r\n")
	}
	b := []byte(doc)
	for k := 1 + rng.Intn(3); k > 0; k-- {
		b = c05mutateOnce(rng, b)
	}
	return b
}

func c05splitLines(b []byte) []string { return strings.SplitAfter(string(b), "\n") }

func c05mutateOnce(rng *rand.Rand, b []byte) []byte {
	lines := c05splitLines(b)
	pick := func() int { return rng.Intn(len(lines)) }
	join := func() []byte { return []byte(strings.Join(lines, "")) }
	switch rng.Intn(12) {
	case 0: // delete a line
		i := pick()
		lines = append(lines[:i], lines[i+1:]...)
		return join()
	case 1: // duplicate a line (in place or at a random position)
		i, j := pick(), pick()
		if rng.Intn(2) == 0 {
			j = i
		}
		l := lines[i]
		lines = append(lines[:j], append([]string{l}, lines[j:]...)...)
		return join()
	case 2: // truncate at a random byte
		if len(b) == 0 {
			return b
		}
		return b[:rng.Intn(len(b))]
	case 3: // swap two lines
		i, j := pick(), pick()
		lines[i], lines[j] = lines[j], lines[i]
		return join()
	case 4: // corrupt a number
		type span struct{ s, e int }
		var runs []span
		for i := 0; i < len(b); {
			if b[i] >= '0' && b[i] <= '9' {
				j := i
				for j < len(b) && b[j] >= '0' && b[j] <= '9' {
					j++
				}
				runs = append(runs, span{i, j})
				i = j
			} else {
				i++
			}
		}
		if len(runs) == 0 {
			return b
		}
		r := runs[rng.Intn(len(runs))]
		sub := c05numberSubst[rng.Intn(len(c05numberSubst))]
		return append(append(append([]byte(nil), b[:r.s]...), sub...), b[r.e:]...)
	case 5: // a very long attribute value: a new line, or appended to an existing attribute
		long := strings.Repeat(string(rune('A'+rng.Intn(26))), 1000+rng.Intn(70000))
		i := pick()
		switch rng.Intn(4) {
		case 0:
			lines = append(lines[:i], append([]string{"a=fmtp:96 config=" + long + "\r\n"}, lines[i:]...)...)
		case 1:
			lines = append(lines[:i], append([]string{"a=" + long + ":" + long + "\r\n"}, lines[i:]...)...)
		case 2:
			lines = append(lines[:i], append([]string{"a=mid:" + long + "\r\n"}, lines[i:]...)...)
		default:
			l := strings.TrimRight(lines[i], "\r\n")
			lines[i] = l + long + lines[i][len(l):]
		}
		return join()
	case 6: // binary garbage: overwrite or insert a span
		n := 1 + rng.Intn(24)
		g := make([]byte, n)
		for i := range g {
			switch rng.Intn(6) {
			case 0:
				const special = "\x00\n\r= :;/,"
				g[i] = special[rng.Intn(len(special))]
			default:
				g[i] = byte(rng.Intn(256))
			}
		}
		if len(b) == 0 {
			return g
		}
		p := rng.Intn(len(b))
		e := p
		if rng.Intn(2) == 0 {
			e = min(len(b), p+n)
		}
		return append(append(append([]byte(nil), b[:p]...), g...), b[e:]...)
	case 7: // change the key letter of a line
		i := pick()
		if len(lines[i]) > 0 {
			const letters = "vosiuepcbtrzkamx=\x00"
			lines[i] = string(letters[rng.Intn(len(letters))]) + lines[i][1:]
		}
		return join()
	case 8, 9: // replace the value of an attribute (after the first ':') with a hostile fragment
		var idx []int
		for i, l := range lines {
			if strings.HasPrefix(l, "a=") && strings.Contains(l, ":") {
				idx = append(idx, i)
			}
		}
		if len(idx) == 0 {
			return b
		}
		i := idx[rng.Intn(len(idx))]
		l := strings.TrimRight(lines[i], "\r\n")
		eol := lines[i][len(l):]
		lines[i] = l[:strings.Index(l, ":")+1] + c05valueSubst[rng.Intn(len(c05valueSubst))] + eol
		return join()
	case 10: // replace the payload types / fields of an m line
		var idx []int
		for i, l := range lines {
			if strings.HasPrefix(l, "m=") {
				idx = append(idx, i)
			}
		}
		if len(idx) == 0 {
			return b
		}
		i := idx[rng.Intn(len(idx))]
		ms := []string{"m=video 0 RTP/AVP", "m=video 0 RTP/AVP 96 96", "m=audio 0 RTP/SAVP 0 8 9 10 11 14 26 32 33",
			"m=video 0/2 RTP/AVP 96", "m=video 0/x RTP/AVP 96", "m=video 65536 RTP/AVP 96", "m=video 65537 RTP/AVP 96",
			"m=text 0 RTP/AVP 96", "m=application/x 0 RTP/AVP 96", "m=video 0 RTP/AVP 256", "m=video 0 RTP/AVP -1",
			"m=video 0 RTP/AVP smart/1/90000", "m=video 0 RTP/AVP smart/1/90000 smart/1/90000", "m=video 0 UDP/TLS/RTP/SAVPF 96 97 98",
			"m=video 0 RTP/AVP 127 35 0", "m=video 0 FOO 96", "m=audio 0 RTP/AVP 96 97"}
		lines[i] = ms[rng.Intn(len(ms))] + "\r\n"
		return join()
	default: // move a whole media section to the front / append the first media section again
		first := -1
		for i, l := range lines {
			if strings.HasPrefix(l, "m=") {
				first = i
				break
			}
		}
		if first < 0 {
			return b
		}
		end := len(lines)
		for i := first + 1; i < len(lines); i++ {
			if strings.HasPrefix(lines[i], "m=") {
				end = i
				break
			}
		}
		sec := append([]string(nil), lines[first:end]...)
		if rng.Intn(2) == 0 {
			rest := append(append([]string(nil), lines[:first]...), lines[end:]...)
			lines = append(sec, rest...)
		} else {
			lines = append(lines, sec...)
		}
		return join()
	}
}

func c05mutTrace(s *vt.Sink, class string, seed int64, from, n int) {
	desc, _ := json.Marshal(c05replay{Kind: "mut", Seed: seed, From: from, N: n})
	tr := s.Begin(class, string(desc))
	defer tr.End()
	for i := from; i < from+n; i++ {
		rng := rand.New(rand.NewSource(seed*1000003 + int64(i)))
		doc := c05mutate(rng)
		if i < len(c05docs) { // the first documents are the unmutated vectors
			doc = []byte(c05docs[i])
		}
		r := c05check(doc)
		if c05dump {
			fmt.Fprintf(os.Stderr, "C05-DUMP mutated i=%d accepted=%v stable=%v err=%s\n", i, r.accepted, r.stable, r.first.err)
		}
		if r.panicked || (r.accepted && !r.stable) {
			c05detail("mutated i=%d accepted=%v stable=%v panic=%v diff=%s err=%s\n--- document:\n%s",
				i, r.accepted, r.stable, r.panicked, r.diff, r.first.err, c05clip(doc))
		}
		tr.Emit("sdpparse", "accepted", r.accepted, "stable", r.stable, "panic", r.panicked, "why", c05why("mutated", r.accepted, r.stable, r.panicked, r.diff),
			"d", r.diff, "i", i)
	}
	tr.Emit("end")
}

// ===================================================================
// (1c) truncated parameter values, white space at token boundaries
// ===================================================================

// c05truncCase: document doc with bytes [cut, end) of line `line` replaced by ins.
type c05truncCase struct {
	doc, line, cut, end int
	ins, why            string
}

var c05truncAll []c05truncCase

// c05truncCases enumerates, for every vector document, every value of an fmtp parameter, every
// rtpmap and every key-mgmt value cut short at every length (the exhaustive form of "truncated at
// a random byte", applied where the format parsers are; why="truncated"), followed by every
// fmtp / rtpmap line with one white-space character (space, tab, vertical tab, form feed, no-break
// space) inserted at every token boundary (after ':', around ' ', '=', ';', '/', at the end;
// why="whitespace").
func c05truncCases() []c05truncCase {
	if c05truncAll != nil {
		return c05truncAll
	}
	for di, doc := range c05docs {
		for li, l := range strings.Split(doc, "\n") {
			var spans [][2]int
			switch {
			case strings.HasPrefix(l, "a=fmtp:"):
				sp := strings.IndexByte(l, ' ')
				if sp < 0 {
					continue
				}
				for pos := sp + 1; pos < len(l); {
					e := strings.IndexByte(l[pos:], ';')
					if e < 0 {
						e = len(l) - pos
					}
					if eq := strings.IndexByte(l[pos:pos+e], '='); eq >= 0 {
						spans = append(spans, [2]int{pos + eq + 1, pos + e})
					}
					pos += e + 1
				}
			case strings.HasPrefix(l, "a=rtpmap:"), strings.HasPrefix(l, "a=key-mgmt:"):
				spans = append(spans, [2]int{strings.IndexByte(l, ':') + 1, len(l)})
			}
			for _, s := range spans {
				for cut := s[0]; cut < s[1]; cut++ {
					c05truncAll = append(c05truncAll, c05truncCase{di, li, cut, s[1], "", "truncated"})
				}
			}
		}
	}
	for di, doc := range c05docs {
		for li, l := range strings.Split(doc, "\n") {
			if !strings.HasPrefix(l, "a=fmtp:") && !strings.HasPrefix(l, "a=rtpmap:") {
				continue
			}
			for pos := strings.IndexByte(l, ':') + 1; pos <= len(l); pos++ {
				boundary := pos == len(l) || strings.IndexByte(" =;/", l[pos]) >= 0 || strings.IndexByte(": =;/", l[pos-1]) >= 0
				if !boundary {
					continue
				}
				for _, ws := range []string{" ", "\t", "\v", "\f", "\u00a0"} {
					c05truncAll = append(c05truncAll, c05truncCase{di, li, pos, pos, ws, "whitespace"})
				}
			}
		}
	}
	// key-mgmt values whose MIKEY message is cut short at every BYTE of its binary form, for
	// messages announcing 1 .. 255 crypto sessions (sizes computed from such counts must not
	// wrap): why="mikey_truncated"
	for di, doc := range c05docs {
		for li, l := range strings.Split(doc, "\n") {
			if !strings.HasPrefix(l, "a=key-mgmt:mikey ") {
				continue
			}
			at := len("a=key-mgmt:mikey ")
			for _, ncs := range []int{1, 28, 29, 30, 57, 114, 255} {
				m := c05mikey(2, ncs)
				for i := 1; i < ncs; i++ {
					m.Header.CSIDMapInfo = append(m.Header.CSIDMapInfo,
						mikey.SRTPIDEntry{PolicyNo: uint8(i), SSRC: uint32(i) * 0x01010101, ROC: uint32(i)})
				}
				bin, err := m.Marshal()
				if err != nil {
					continue
				}
				for cut := 0; cut <= len(bin); cut++ {
					if ncs > 30 && cut > 40 && cut%7 != 0 && cut < len(bin)-40 {
						continue // long entry tables: every 7th length in the middle
					}
					c05truncAll = append(c05truncAll, c05truncCase{di, li, at, len(l),
						base64.StdEncoding.EncodeToString(bin[:cut]), "mikey_truncated"})
				}
			}
		}
	}
	return c05truncAll
}

func c05truncDoc(c c05truncCase) []byte {
	lines := strings.Split(c05docs[c.doc], "\n")
	l := lines[c.line]
	lines[c.line] = l[:c.cut] + c.ins + l[c.end:]
	return []byte(strings.Join(lines, "\r\n"))
}

func c05truncTrace(s *vt.Sink, class string, from, n int) {
	desc, _ := json.Marshal(c05replay{Kind: "trunc", From: from, N: n})
	tr := s.Begin(class, string(desc))
	defer tr.End()
	all := c05truncCases()
	for i := from; i < from+n && i < len(all); i++ {
		doc := c05truncDoc(all[i])
		r := c05check(doc)
		if r.panicked || (r.accepted && !r.stable) {
			c05detail("%s i=%d accepted=%v stable=%v panic=%v diff=%s err=%s\n--- line:\n%q",
				all[i].why, i, r.accepted, r.stable, r.panicked, r.diff, r.first.err,
				c05clip([]byte(strings.Split(string(doc), "\r\n")[all[i].line])))
		}
		tr.Emit("sdpparse", "accepted", r.accepted, "stable", r.stable, "panic", r.panicked, "why", c05why(all[i].why, r.accepted, r.stable, r.panicked, r.diff),
			"d", r.diff, "i", i)
	}
	tr.Emit("end")
}

// ===================================================================
// (2) presence vectors
// ===================================================================

func c05cls(c string) (int, error) {
	switch c {
	case "zero":
		return 0, nil
	case "one":
		return 1, nil
	case "mid":
		return 2, nil
	case "max":
		return 3, nil
	}
	return 0, fmt.Errorf("c05: unknown class %q", c)
}

// c05bit: presence bit i, wrapping around the vector.
func c05bit(v c05vec, i int) bool {
	if v.N <= 0 {
		return false
	}
	return v.P&(1<<(i%v.N)) != 0
}

// c05extra: presence bits 8 and 9; vectors with fewer bits take them from the variant
// (so that the 8-bit quick vectors reach both values of each).
func c05extra(v c05vec, i int) bool {
	if i < v.N {
		return c05bit(v, i)
	}
	return v.V&(1<<(i-8)) != 0
}

func c05ptr[T any](x T) *T { return &x }

// ---- parameter sets and configs from the repository's test vectors (format_test.go,
// session_test.go, sdpunmarshaler_test.go); parsed once with the codecs' own parsers ----

var (
	c05h264Sets = [][2]string{ // SPS, PPS
		{"Z2QADKw7ULBLQgAAAwACAAADAD0I", "aO48gA=="},
		{"Z2QAH6zZQFAFuwFsgAAAAwCAAAAeB4wYyw==", "aOvjyyLA"},
		{"Z01AKY2NYDwBE/LgLcBDQECA", "aO44gA=="},
		{"Z2QAKKy0A8ARPyo=", "aO4Bniw="},
		{"Z0IAHp2oKAv+WbgICAgQ", "aM48gA=="},
	}
	c05h265Sets = [][3]string{ // VPS, SPS, PPS
		{"QAEMAf//AWAAAAMAkAAAAwAAAwB4mZgJ", "QgEBAWAAAAMAkAAAAwAAAwB4oAPAgBDllmZpJMrgEAAAAwAQAAADAeCA", "RAHBcrRiQA=="},
		{"QAEMAf//AWAAAAMAAAMAAAMAAAMAlqwJ", "QgEBAWAAAAMAAAMAAAMAAAMAlqAFogHhY2uSTJrlmQ==", "RAHgdrAmQA=="},
	}
	c05mpeg4vConfigs = []string{
		"000001B001000001B58913000001000000012000C48D8AEE053C04641443000001B24C61766335382E3133342E313030",
		"000001B0F5000001B509000001000000012008D48D88032514043C14440F",
		"000001B0F5000001B509000001000000012000845D4C28582120A31F",
		"000001B002000001B59113000001000000012000C888800F514043C14103",
	}
	c05aacConfigs    = []string{"1190", "1210", "1388", "eb098800", "118856E500"}
	c05latmConfigs   = []string{"400026203fc0", "400026103fc0", "40005623101fe0", "4001d613101fe0", "400023103fc0"}
	c05vorbisConfigs = []string{"AQIDBA=="}

	c05vectorsReady bool
)

func c05b64(s string) []byte {
	b, err := base64.StdEncoding.DecodeString(s)
	if err != nil {
		panic(err)
	}
	return b
}

func c05hex(s string) []byte {
	b, err := hex.DecodeString(s)
	if err != nil {
		panic(err)
	}
	return b
}

// c05aac / c05latm return a fresh struct every time (the library may keep the pointer).
func c05aac(i int) *mpeg4audio.AudioSpecificConfig {
	var c mpeg4audio.AudioSpecificConfig
	if err := c.Unmarshal(c05hex(c05aacConfigs[i%len(c05aacConfigs)])); err != nil {
		panic(err)
	}
	return &c
}

func c05latm(i int) *mpeg4audio.StreamMuxConfig {
	var c mpeg4audio.StreamMuxConfig
	if err := c.Unmarshal(c05hex(c05latmConfigs[i%len(c05latmConfigs)])); err != nil {
		panic(err)
	}
	return &c
}

// c05initVectors checks once that every blob is what it claims to be (a harness error otherwise).
func c05initVectors() (err error) {
	if c05vectorsReady {
		return nil
	}
	defer func() {
		if p := recover(); p != nil {
			err = fmt.Errorf("c05: test vector not parsable: %v", p)
		}
	}()
	for i := range c05aacConfigs {
		c05aac(i)
	}
	for i := range c05latmConfigs {
		c05latm(i)
	}
	for _, s := range c05h264Sets {
		c05b64(s[0])
		c05b64(s[1])
	}
	for _, s := range c05h265Sets {
		c05b64(s[0])
		c05b64(s[1])
		c05b64(s[2])
	}
	for _, s := range c05mpeg4vConfigs {
		c05hex(s)
	}
	for _, s := range c05vorbisConfigs {
		c05b64(s)
	}
	c05vectorsReady = true
	return nil
}

// c05mikey builds a message shaped like the one the library itself sends (wrapped_srtp_context.go,
// contextToMikey): T, RAND, SP with the SRTP policy, KEMAC with one TEK; odd classes carry an SPI.
func c05mikey(cls, salt int) *mikey.Message {
	rnd := make([]byte, 16)
	key := make([]byte, 30)
	for i := range rnd {
		rnd[i] = byte(i*13 + salt)
	}
	for i := range key {
		key[i] = byte(i*7 + 3*salt + 1)
	}
	kd := &mikey.SubPayloadKeyData{Type: mikey.SubPayloadKeyDataTypeTEK, KeyData: key}
	if cls%2 == 1 {
		kd.KV = mikey.SubPayloadKeyDataKVSPI
		kd.SPI = []byte{1, 2, 3, byte(salt)}
		if cls == 3 {
			kd.SPI = []byte{} // key validity by SPI with an SPI of length 0 (the parser accepts it)
		}
	}
	return &mikey.Message{
		Header: mikey.Header{
			Version: 1,
			CSBID:   [4]uint32{0, 1, 0x7a23295e, 0xFFFFFFFF}[cls],
			CSIDMapInfo: []mikey.SRTPIDEntry{{
				SSRC: [4]uint32{0, 1, 0x958c2327, 0xFFFFFFFF}[cls] ^ uint32(salt),
				ROC:  [4]uint32{0, 1, 0x1234, 0xFFFFFFFF}[cls],
			}},
		},
		Payloads: []mikey.Payload{
			&mikey.PayloadT{TSValue: [4]uint64{0, 1, 17003794820816085580, 0xFFFFFFFFFFFFFFFF}[cls]},
			&mikey.PayloadRAND{Data: rnd},
			&mikey.PayloadSP{PolicyParams: []mikey.PayloadSPPolicyParam{
				{Type: mikey.PayloadSPPolicyParamTypeEncrAlg, Value: []byte{1}},
				{Type: mikey.PayloadSPPolicyParamTypeSessionEncrKeyLen, Value: []byte{16}},
				{Type: mikey.PayloadSPPolicyParamTypeAuthAlg, Value: []byte{1}},
				{Type: mikey.PayloadSPPolicyParamTypeSessionAuthKeyLen, Value: []byte{20}},
				{Type: mikey.PayloadSPPolicyParamTypeSRTPEncrOffOn, Value: []byte{1}},
				{Type: mikey.PayloadSPPolicyParamTypeSRTCPEncrOffOn, Value: []byte{1}},
				{Type: mikey.PayloadSPPolicyParamTypeSRTPAuthOffOn, Value: []byte{1}},
			}},
			&mikey.PayloadKEMAC{SubPayloads: []*mikey.SubPayloadKeyData{kd}},
		},
	}
}

const c05nTypes = 22

// c05mkFormat builds a format of type t (index into the 22 format types) with valid parameters.
// opt(i) = presence of the i-th optional field, c = numeric class, vr = variant, pt = the dynamic
// payload type to use when the format needs one.
//
// Optional fields per type (in the order of the presence bits):
//
//	H264 SPS+PPS (a pair), PacketizationMode | H265 VPS, SPS, PPS, MaxDONDiff | AV1 LevelIdx, Profile, Tier
//	VP8 MaxFR, MaxFS | VP9 MaxFR, MaxFS, ProfileID | Opus (0: multichannel layout)
//	MPEG4Audio ProfileLevelID, IndexLength, IndexDeltaLength
//	MPEG4AudioLATM StreamMuxConfig (absent: CPresent), Bitrate, SBREnabled, ProfileLevelID
//	MPEG4Video ProfileLevelID, Config | G711 (0: dynamic payload type and free rate, 1: mu-law)
//	G726 (0: BigEndian) | LPCM (0: dynamic payload type and free rate, 1: static 11 instead of 10)
//	Speex VBR | Generic FMT | the others have none
func c05mkFormat(t int, opt func(int) bool, c, vr int, pt uint8) format.Format {
	switch t {
	case 0:
		f := &format.H264{PayloadTyp: pt}
		if opt(0) {
			s := c05h264Sets[vr%len(c05h264Sets)]
			f.SPS, f.PPS = c05b64(s[0]), c05b64(s[1])
		}
		if opt(1) {
			f.PacketizationMode = [4]int{0, 1, 1, 2}[c]
		}
		return f
	case 1:
		f := &format.H265{PayloadTyp: pt}
		s := c05h265Sets[vr%len(c05h265Sets)]
		if opt(0) {
			f.VPS = c05b64(s[0])
		}
		if opt(1) {
			f.SPS = c05b64(s[1])
		}
		if opt(2) {
			f.PPS = c05b64(s[2])
		}
		if opt(3) {
			f.MaxDONDiff = [4]int{0, 1, 2, 32767}[c]
		}
		return f
	case 2:
		f := &format.AV1{PayloadTyp: pt}
		if opt(0) {
			f.LevelIdx = c05ptr([4]int{0, 1, 8, 31}[c])
		}
		if opt(1) {
			f.Profile = c05ptr([4]int{0, 1, 2, 2}[c])
		}
		if opt(2) {
			f.Tier = c05ptr([4]int{0, 1, 1, 1}[c])
		}
		return f
	case 3:
		f := &format.VP8{PayloadTyp: pt}
		if opt(0) {
			f.MaxFR = c05ptr([4]int{0, 1, 30, 2147483647}[c])
		}
		if opt(1) {
			f.MaxFS = c05ptr([4]int{0, 1, 3600, 2147483647}[c])
		}
		return f
	case 4:
		f := &format.VP9{PayloadTyp: pt}
		if opt(0) {
			f.MaxFR = c05ptr([4]int{0, 1, 30, 2147483647}[c])
		}
		if opt(1) {
			f.MaxFS = c05ptr([4]int{0, 1, 3600, 2147483647}[c])
		}
		if opt(2) {
			f.ProfileID = c05ptr([4]int{0, 1, 2, 3}[c])
		}
		return f
	case 5:
		if opt(0) { // multiopus: the channel counts with a defined layout
			return &format.Opus{PayloadTyp: pt, ChannelCount: [4]int{3, 5, 6, 8}[c]}
		}
		return &format.Opus{PayloadTyp: pt, ChannelCount: [4]int{1, 2, 1, 2}[c]}
	case 6:
		f := &format.MPEG4Audio{PayloadTyp: pt, Config: c05aac(c + vr), SizeLength: 13}
		if opt(0) { // absent: 0 (N5)
			f.ProfileLevelID = [4]int{1, 2, 14, 48}[c]
		}
		if opt(1) {
			f.IndexLength = 3
		}
		if opt(2) {
			f.IndexDeltaLength = 3
		}
		return f
	case 7:
		f := &format.MPEG4AudioLATM{PayloadTyp: pt, ProfileLevelID: 30, CPresent: true}
		if opt(0) {
			f.CPresent = false
			f.StreamMuxConfig = c05latm(c + vr)
		}
		if opt(1) {
			f.Bitrate = c05ptr([4]int{0, 1, 64000, 2147483647}[c])
		}
		if opt(2) {
			f.SBREnabled = c05ptr(vr%2 == 0)
		}
		if opt(3) {
			f.ProfileLevelID = [4]int{0, 1, 44, 255}[c]
		}
		return f
	case 8:
		f := &format.MPEG4Video{PayloadTyp: pt, ProfileLevelID: 1}
		if opt(0) {
			f.ProfileLevelID = [4]int{0, 1, 5, 255}[c]
		}
		if opt(1) {
			f.Config = c05hex(c05mpeg4vConfigs[(c+vr)%len(c05mpeg4vConfigs)])
		}
		return f
	case 9:
		mu := opt(1)
		if !opt(0) { // static payload types 0 (PCMU) and 8 (PCMA): 8000 Hz mono
			f := &format.G711{PayloadTyp: 8, MULaw: mu, SampleRate: 8000, ChannelCount: 1}
			if mu {
				f.PayloadTyp = 0
			}
			return f
		}
		return &format.G711{PayloadTyp: pt, MULaw: mu,
			SampleRate: [4]int{8000, 16000, 32000, 48000}[c], ChannelCount: [4]int{1, 2, 1, 2}[(c+vr)%4]}
	case 10:
		return &format.G722{}
	case 11:
		return &format.G726{PayloadTyp: pt, BitRate: [4]int{16, 24, 32, 40}[c], BigEndian: opt(0)}
	case 12:
		if !opt(0) { // static payload types 10 (stereo) and 11 (mono): 16 bit, 44100 Hz
			if opt(1) {
				return &format.LPCM{PayloadTyp: 11, BitDepth: 16, SampleRate: 44100, ChannelCount: 1}
			}
			return &format.LPCM{PayloadTyp: 10, BitDepth: 16, SampleRate: 44100, ChannelCount: 2}
		}
		return &format.LPCM{PayloadTyp: pt, BitDepth: [3]int{8, 16, 24}[vr%3],
			SampleRate: [4]int{8000, 44100, 48000, 96000}[c], ChannelCount: [4]int{1, 2, 6, 8}[c]}
	case 13:
		return &format.AC3{PayloadTyp: pt, SampleRate: [4]int{32000, 44100, 48000, 48000}[c], ChannelCount: [4]int{1, 2, 6, 5}[c]}
	case 14:
		return &format.Vorbis{PayloadTyp: pt, SampleRate: [4]int{8000, 44100, 48000, 192000}[c],
			ChannelCount: [4]int{1, 2, 2, 8}[c], Configuration: c05b64(c05vorbisConfigs[vr%len(c05vorbisConfigs)])}
	case 15:
		f := &format.Speex{PayloadTyp: pt, SampleRate: [4]int{8000, 16000, 32000, 48000}[c]}
		if opt(0) {
			f.VBR = c05ptr(vr%2 == 0)
		}
		return f
	case 16:
		return &format.MJPEG{}
	case 17:
		return &format.MPEG1Audio{}
	case 18:
		return &format.MPEG1Video{}
	case 19:
		return &format.MPEGTS{}
	case 20:
		return &format.KLV{PayloadTyp: pt}
	default:
		f := &format.Generic{PayloadTyp: pt,
			RTPMa: [4]string{"x-custom/90000", "MetaData", "H261/90000", "vnd.onvif.metadata/90000"}[c]}
		if c == 2 {
			f.PayloadTyp = 31 // a static payload type without a dedicated format
		}
		if opt(0) { // lower-case keys; values without ';' and without outer spaces
			f.FMT = []map[string]string{
				{"apt": "96"},
				{"level-asymmetry-allowed": "1", "profile-level-id": "42e01f"},
				{"sampling": "mono", "width": "320", "depth": "16", "x": "a=b,c/d+e=="},
				{"k": ""},
			}[vr%4]
		}
		if err := f.Init(); err != nil {
			panic(err)
		}
		return f
	}
}

// c05build builds the description of a vector. Session / media level presence bits:
//
//	0 Title  1 media IDs  2 back channel (last media, only when there are several: N6)
//	3 SAVP on the even medias, with MIKEY key management  4 ... at session level instead of media level
//	5 FEC groups (forces media IDs)  6 Multicast  7 Control  8 non-ASCII title  9 absolute control URLs
//
// medias = 1 + variant mod 3; formats per media and their types cycle with the vector so that every
// type is used many times; the optional fields of format k of media j use the presence bits
// starting at bit 3j+k (wrapping around).
func c05build(v c05vec) *description.Session {
	c, _ := c05cls(v.C)
	nm := 1 + v.V%3
	d := &description.Session{}
	if c05bit(v, 0) {
		d.Title = [4]string{"S", "Stream", `Title with spaces: and=signs; "quotes" a=b`, strings.Repeat("Long title ", 30) + "end"}[c]
		if c05extra(v, 8) {
			d.Title = [4]string{"é", "Caméra", "日本語 ストリーム", "Ünïcödé " + strings.Repeat("ü", 100)}[c]
		}
	}
	d.Multicast = c05bit(v, 6) // N2
	ids := c05bit(v, 1) || c05bit(v, 5)
	savp := c05bit(v, 3)
	if savp && c05bit(v, 4) {
		d.KeyMgmtMikey = c05mikey(c, 0)
	}
	for j := 0; j < nm; j++ {
		m := &description.Media{
			Type:    [3]description.MediaType{description.MediaTypeVideo, description.MediaTypeAudio, description.MediaTypeApplication}[(v.V+j)%3],
			Profile: headers.TransportProfileAVP,
		}
		if ids {
			m.ID = [4]string{"", "a", "video", strings.Repeat("Media", 12)}[c] + strconv.Itoa(j)
		}
		// one back channel among several medias, at any position (first, middle, last)
		m.IsBackChannel = c05bit(v, 2) && nm > 1 && j == (v.V/3+v.P/8)%nm
		if savp && j%2 == 0 {
			m.Profile = headers.TransportProfileSAVP
			if !c05bit(v, 4) {
				m.KeyMgmtMikey = c05mikey(c, j+1)
			}
		}
		if c05bit(v, 7) {
			m.Control = "trackID=" + strconv.Itoa(j)
			if c05extra(v, 9) {
				m.Control = "rtsp://192.168.0.1:8554/stream/sub?x=1&y=2/trackID=" + strconv.Itoa(j)
			}
		}
		nf := 1 + (v.P/2+j+v.V)%2
		t0 := (v.P + 5*v.V + 11*j) % c05nTypes
		t1 := (t0 + 1 + (v.P/c05nTypes+j)%(c05nTypes-1)) % c05nTypes // never t0
		base := [4]int{96, 97, 110, 127}[c]
		for k := 0; k < nf; k++ {
			t := t0
			if k == 1 {
				t = t1
			}
			off := 3*j + k
			pt := uint8(96 + (base-96+k)%32)
			m.Formats = append(m.Formats, c05mkFormat(t, func(i int) bool { return c05bit(v, i+off) }, c, v.V+j+k, pt))
		}
		d.Medias = append(d.Medias, m)
	}
	if c05bit(v, 5) {
		switch nm {
		case 1:
			d.FECGroups = []description.SessionFECGroup{{d.Medias[0].ID}}
		case 2:
			d.FECGroups = []description.SessionFECGroup{{d.Medias[0].ID, d.Medias[1].ID}}
		default:
			d.FECGroups = []description.SessionFECGroup{{d.Medias[0].ID, d.Medias[1].ID}, {d.Medias[2].ID, d.Medias[0].ID}}
		}
	}
	return d
}

func c05fmtNames(d *description.Session) string {
	var out []string
	for _, m := range d.Medias {
		var fs []string
		for _, f := range m.Formats {
			fs = append(fs, c05fmtName(f))
		}
		out = append(out, strings.Join(fs, "+"))
	}
	return strings.Join(out, "|")
}

// c05rtOne runs one vector.
func c05rtOne(v c05vec) (eq, idem, panicked bool, why string, err error) {
	var d, want *description.Session
	func() {
		defer func() {
			if p := recover(); p != nil {
				err = fmt.Errorf("c05: cannot build %+v: %v", v, p)
			}
		}()
		// built twice: `want` is never handed to the library
		d, want = c05build(v), c05build(v)
	}()
	if err != nil {
		return false, false, false, "", err
	}
	m1, merr, pn := c05marshal(d)
	panicked = pn
	if merr != nil {
		c05detail("rt %+v [%s]: marshal error: %v", v, c05fmtNames(d), merr)
		return false, false, panicked, "marshal_error", nil
	}
	for _, m := range d.Medias {
		for _, f := range m.Formats {
			c05fmtUse[c05fmtName(f)]++
		}
	}
	if c05dump {
		fmt.Fprintf(os.Stderr, "C05-DUMP rt %+v [%s]\n%s", v, c05fmtNames(d), m1)
	}
	p1 := c05parse(m1)
	panicked = panicked || p1.panicked
	if !p1.ok {
		c05detail("rt %+v [%s]: the marshalled description is not accepted: %s\n--- marshalled:\n%s", v, c05fmtNames(d), p1.err, c05clip(m1))
		return false, false, panicked, "parse_error", nil
	}
	why = c05diff(want, p1.d)
	eq = why == ""
	if !eq {
		c05detail("rt %+v [%s]: differs in %s\n--- marshalled:\n%s", v, c05fmtNames(d), why, c05clip(m1))
	}
	m2, merr2, pn2 := c05marshal(p1.d)
	panicked = panicked || pn2
	if merr2 == nil {
		p2 := c05parse(m2)
		panicked = panicked || p2.panicked
		if p2.ok {
			d2 := c05diff(p1.d, p2.d)
			idem = d2 == ""
			if !idem && eq {
				why = "idem:" + d2
			}
		} else if eq {
			why = "idem:parse_error"
		}
	} else if eq {
		why = "idem:marshal_error"
	}
	if eq && idem {
		why = "ok"
	} else if eq {
		c05detail("rt %+v [%s]: not idempotent: %s\n--- first:\n%s--- second:\n%s", v, c05fmtNames(d), why, c05clip(m1), c05clip(m2))
	}
	return eq, idem, panicked, why, nil
}

func c05rtTrace(s *vt.Sink, class string, vecs []c05vec) error {
	desc, _ := json.Marshal(c05replay{Kind: "rt", Vecs: vecs})
	tr := s.Begin(class, string(desc))
	defer tr.End()
	for _, v := range vecs {
		if _, err := c05cls(v.C); err != nil {
			return err
		}
		eq, idem, panicked, why, err := c05rtOne(v)
		if err != nil {
			return err
		}
		tr.Emit("sdprt", "eq", eq, "idem", idem, "panic", panicked, "why", why,
			"v", fmt.Sprintf("p=%d,n=%d,c=%s,v=%d", v.P, v.N, v.C, v.V))
	}
	tr.Emit("end")
	return nil
}
