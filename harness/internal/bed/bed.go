// Package bed is the test bed of the verification harness: a real gortsplib.Server
// with recording handlers, and a raw RTSP peer (plain TCP, requests built by hand)
// that talks to it. Every handler callback becomes an event of the current trace.
package bed

import (
	"bufio"
	"crypto/tls"
	"fmt"
	"net"
	"strconv"
	"sync"
	"sync/atomic"
	"time"

	"github.com/bluenviron/gortsplib/v5"
	"github.com/bluenviron/gortsplib/v5/pkg/base"
	"github.com/bluenviron/gortsplib/v5/pkg/conn"
	"github.com/bluenviron/gortsplib/v5/pkg/description"
	"github.com/bluenviron/gortsplib/v5/pkg/format"
	"github.com/bluenviron/gortsplib/v5/pkg/liberrors"

	"verifharness/internal/vt"
)

// ServerCfg selects the server configuration under test.
type ServerCfg struct {
	UDP            bool
	Handlers       string // "all" | "norecord" | "noplay" | "nopause"
	TLS            *tls.Config
	ReadTimeout    time.Duration
	IdleTimeout    time.Duration
	WriteTimeout   time.Duration
	CheckPeriod    time.Duration // private checkStreamPeriod (0: default)
	ReportPeriod   time.Duration // private sender/receiver report periods (0: default)
	WriteQueueSize int
	MaxPacketSize  int
	Medias         int  // medias of the served stream (default 2)
	ExtraFormats   int  // additional formats offered by the first media (default 0)
	Multicast      bool // offer multicast delivery (224.1.0.0/16, a free port pair)
	BackChannel    int  // n > 0: a back-channel audio media is inserted at index n-1 of the served stream
	Wildcard       bool // listen on the wildcard address (":port", dual-stack sockets: IPv4 peers appear as IPv4-mapped addresses); clients still use IP
	AuthUser       string
	AuthPass       string
	IP             string // listen address, default 127.0.0.1
	// Hooks called from handlers (may be nil).
	OnPacket func(ss *gortsplib.ServerSession, medi *description.Media, forma format.Format, pkt any)
	Extra    func(s *gortsplib.Server)
	// AuthCheck, when set, is consulted by the describe / setup / announce handlers: when it
	// returns false the handler answers 401 with liberrors.ErrServerAuth{} (as
	// /repo/examples/server-auth does). Typically it calls sc.VerifyCredentials(req, user, pass).
	AuthCheck func(sc *gortsplib.ServerConn, req *base.Request) bool
}

// Bed is a running server with its stream.
type Bed struct {
	Cfg       ServerCfg
	S         *gortsplib.Server
	Stream    *gortsplib.ServerStream
	Desc      *description.Session
	Port      int
	McastPort int // multicast RTP port (RTCP = +1) when Cfg.Multicast
	UDPPort   int
	IP        string

	cur atomic.Pointer[vt.Trace]

	mu        sync.Mutex
	cond      *sync.Cond
	sessions  []*gortsplib.ServerSession // in open order
	sessIDs   map[*gortsplib.ServerSession]int
	connIDs   map[*gortsplib.ServerConn]int
	sessOpen  int
	sessClose int
	connOpen  int
	connClose int
	// per-session hooks installed by drivers
	OnSessionOpenHook  func(ss *gortsplib.ServerSession)
	OnSessionCloseHook func(ss *gortsplib.ServerSession, err error)
	OnAnnounceHook     func(ctx *gortsplib.ServerHandlerOnAnnounceCtx)
	OnSetupHook        func(ctx *gortsplib.ServerHandlerOnSetupCtx)
	OnPlayHook         func(ctx *gortsplib.ServerHandlerOnPlayCtx)
	OnRecordHook       func(ctx *gortsplib.ServerHandlerOnRecordCtx)
	OnDescribeHook     func(ctx *gortsplib.ServerHandlerOnDescribeCtx)
	OnPauseHook        func() *base.Response // non-nil result: the answer to the PAUSE request
	OnWriteErrorHook   func(ctx *gortsplib.ServerHandlerOnStreamWriteErrorCtx)
}

// SetTrace directs handler events to tr (nil: drop).
func (b *Bed) SetTrace(tr *vt.Trace) { b.cur.Store(tr) }

func (b *Bed) emit(ev string, kv ...any) {
	if tr := b.cur.Load(); tr != nil {
		tr.Emit(ev, kv...)
	}
}

// ---- handler method sets (Go interfaces are static: one struct per subset) ----

type core struct{ b *Bed }

type mConn struct{ *core }

func (m mConn) OnConnOpen(ctx *gortsplib.ServerHandlerOnConnOpenCtx) {
	b := m.b
	b.mu.Lock()
	if b.connIDs == nil {
		b.connIDs = map[*gortsplib.ServerConn]int{}
	}
	id := len(b.connIDs) + 1
	b.connIDs[ctx.Conn] = id
	b.mu.Unlock()
	b.emit("conn_open", "c", id)
	b.mu.Lock()
	b.connOpen++
	b.cond.Broadcast()
	b.mu.Unlock()
}

func (m mConn) OnConnClose(ctx *gortsplib.ServerHandlerOnConnCloseCtx) {
	b := m.b
	b.emit("conn_close", "c", b.ConnID(ctx.Conn))
	b.mu.Lock()
	b.connClose++
	b.cond.Broadcast()
	b.mu.Unlock()
}

type mSess struct{ *core }

func (m mSess) OnSessionOpen(ctx *gortsplib.ServerHandlerOnSessionOpenCtx) {
	b := m.b
	b.mu.Lock()
	b.sessions = append(b.sessions, ctx.Session)
	if b.sessIDs == nil {
		b.sessIDs = map[*gortsplib.ServerSession]int{}
	}
	sid := len(b.sessIDs) + 1
	b.sessIDs[ctx.Session] = sid
	b.sessOpen++
	h := b.OnSessionOpenHook
	b.cond.Broadcast()
	b.mu.Unlock()
	b.emit("sess_open", "s", sid)
	if h != nil {
		h(ctx.Session)
	}
}

func (m mSess) OnSessionClose(ctx *gortsplib.ServerHandlerOnSessionCloseCtx) {
	b := m.b
	b.mu.Lock()
	h := b.OnSessionCloseHook
	b.mu.Unlock()
	if h != nil {
		h(ctx.Session, ctx.Error)
	}
	b.emit("sess_close", "s", b.SessID(ctx.Session))
	b.mu.Lock()
	b.sessClose++
	b.cond.Broadcast()
	b.mu.Unlock()
}

type mDescribe struct{ *core }

func (m mDescribe) OnDescribe(ctx *gortsplib.ServerHandlerOnDescribeCtx) (*base.Response, *gortsplib.ServerStream, error) {
	if ac := m.b.Cfg.AuthCheck; ac != nil && !ac(ctx.Conn, ctx.Request) {
		return &base.Response{StatusCode: base.StatusUnauthorized}, nil, liberrors.ErrServerAuth{}
	}
	if h := m.b.OnDescribeHook; h != nil {
		h(ctx)
	}
	return &base.Response{StatusCode: base.StatusOK}, m.b.Stream, nil
}

type mAnnounce struct{ *core }

func (m mAnnounce) OnAnnounce(ctx *gortsplib.ServerHandlerOnAnnounceCtx) (*base.Response, error) {
	if ac := m.b.Cfg.AuthCheck; ac != nil && !ac(ctx.Conn, ctx.Request) {
		return &base.Response{StatusCode: base.StatusUnauthorized}, liberrors.ErrServerAuth{}
	}
	if h := m.b.OnAnnounceHook; h != nil {
		h(ctx)
	}
	return &base.Response{StatusCode: base.StatusOK}, nil
}

type mSetup struct{ *core }

func (m mSetup) OnSetup(ctx *gortsplib.ServerHandlerOnSetupCtx) (*base.Response, *gortsplib.ServerStream, error) {
	if ac := m.b.Cfg.AuthCheck; ac != nil && !ac(ctx.Conn, ctx.Request) {
		return &base.Response{StatusCode: base.StatusUnauthorized}, nil, liberrors.ErrServerAuth{}
	}
	if h := m.b.OnSetupHook; h != nil {
		h(ctx)
	}
	if ctx.Session.State() == gortsplib.ServerSessionStatePreRecord {
		return &base.Response{StatusCode: base.StatusOK}, nil, nil
	}
	return &base.Response{StatusCode: base.StatusOK}, m.b.Stream, nil
}

type mPlay struct{ *core }

func (m mPlay) OnPlay(ctx *gortsplib.ServerHandlerOnPlayCtx) (*base.Response, error) {
	if h := m.b.OnPlayHook; h != nil {
		h(ctx)
	}
	return &base.Response{StatusCode: base.StatusOK}, nil
}

type mRecord struct{ *core }

func (m mRecord) OnRecord(ctx *gortsplib.ServerHandlerOnRecordCtx) (*base.Response, error) {
	if h := m.b.OnRecordHook; h != nil {
		h(ctx)
	}
	return &base.Response{StatusCode: base.StatusOK}, nil
}

type mPause struct{ *core }

func (m mPause) OnPause(_ *gortsplib.ServerHandlerOnPauseCtx) (*base.Response, error) {
	m.b.mu.Lock()
	h := m.b.OnPauseHook
	m.b.mu.Unlock()
	if h != nil {
		if r := h(); r != nil {
			return r, nil // the application refuses the PAUSE (no error: the connection is kept)
		}
	}
	return &base.Response{StatusCode: base.StatusOK}, nil
}

type mWriteErr struct{ *core }

func (m mWriteErr) OnStreamWriteError(ctx *gortsplib.ServerHandlerOnStreamWriteErrorCtx) {
	if h := m.b.OnWriteErrorHook; h != nil {
		h(ctx)
	}
}

type hAll struct {
	mConn
	mSess
	mDescribe
	mAnnounce
	mSetup
	mPlay
	mRecord
	mPause
	mWriteErr
}
type hNoRecord struct {
	mConn
	mSess
	mDescribe
	mSetup
	mPlay
	mPause
	mWriteErr
}
type hNoPlay struct {
	mConn
	mSess
	mAnnounce
	mSetup
	mRecord
	mPause
	mWriteErr
}
type hNoPause struct {
	mConn
	mSess
	mDescribe
	mAnnounce
	mSetup
	mPlay
	mRecord
	mWriteErr
}

// FreeTCPPort returns a TCP port that was free a moment ago.
func FreeTCPPort(ip string) int {
	l, err := net.Listen("tcp", net.JoinHostPort(ip, "0"))
	if err != nil {
		panic(err)
	}
	defer l.Close()
	return l.Addr().(*net.TCPAddr).Port
}

// FreeUDPPair returns an even UDP port p such that p and p+1 were free a moment ago.
func FreeUDPPair(ip string) int {
	for i := 0; i < 200; i++ {
		c, err := net.ListenPacket("udp", net.JoinHostPort(ip, "0"))
		if err != nil {
			panic(err)
		}
		p := c.LocalAddr().(*net.UDPAddr).Port
		c.Close()
		if p%2 != 0 {
			p--
		}
		c1, err1 := net.ListenPacket("udp", net.JoinHostPort(ip, strconv.Itoa(p)))
		if err1 != nil {
			continue
		}
		c2, err2 := net.ListenPacket("udp", net.JoinHostPort(ip, strconv.Itoa(p+1)))
		c1.Close()
		if err2 != nil {
			continue
		}
		c2.Close()
		return p
	}
	panic("no free udp pair")
}

// DefaultDesc builds the served description: n medias, one H264-like generic format each
// (dynamic payload types 96, 97, ...), controls trackID=i assigned by the stream.
func DefaultDesc(n int) *description.Session {
	d := &description.Session{}
	for i := 0; i < n; i++ {
		var f format.Format
		if i%2 == 0 {
			f = &format.H264{PayloadTyp: uint8(96 + i), PacketizationMode: 1}
		} else {
			f = &format.Opus{PayloadTyp: uint8(96 + i), ChannelCount: 2}
		}
		typ := description.MediaTypeVideo
		if i%2 == 1 {
			typ = description.MediaTypeAudio
		}
		d.Medias = append(d.Medias, &description.Media{Type: typ, Formats: []format.Format{f}})
	}
	return d
}

// DefaultDescX is DefaultDesc with `extra` additional formats on the first media
// (a media that offers several payload types, each with its own SSRC and sequence space).
func DefaultDescX(n, extra int) *description.Session {
	d := DefaultDesc(n)
	for e := 0; e < extra && len(d.Medias) > 0; e++ {
		d.Medias[0].Formats = append(d.Medias[0].Formats, &format.H265{PayloadTyp: uint8(110 + e)})
	}
	return d
}

// Start starts a server bed.
func Start(cfg ServerCfg) (*Bed, error) {
	b := &Bed{Cfg: cfg}
	b.cond = sync.NewCond(&b.mu)
	b.IP = cfg.IP
	if b.IP == "" {
		b.IP = "127.0.0.1"
	}
	c := &core{b: b}
	var h gortsplib.ServerHandler
	switch cfg.Handlers {
	case "", "all":
		h = hAll{mConn{c}, mSess{c}, mDescribe{c}, mAnnounce{c}, mSetup{c}, mPlay{c}, mRecord{c}, mPause{c}, mWriteErr{c}}
	case "norecord":
		h = hNoRecord{mConn{c}, mSess{c}, mDescribe{c}, mSetup{c}, mPlay{c}, mPause{c}, mWriteErr{c}}
	case "noplay":
		h = hNoPlay{mConn{c}, mSess{c}, mAnnounce{c}, mSetup{c}, mRecord{c}, mPause{c}, mWriteErr{c}}
	case "nopause":
		h = hNoPause{mConn{c}, mSess{c}, mDescribe{c}, mAnnounce{c}, mSetup{c}, mPlay{c}, mRecord{c}, mWriteErr{c}}
	default:
		return nil, fmt.Errorf("unknown handler set %q", cfg.Handlers)
	}
	var lastErr error
	for attempt := 0; attempt < 20; attempt++ {
		b.Port = FreeTCPPort(b.IP)
		listenIP := b.IP
		if cfg.Wildcard {
			listenIP = ""
		}
		s := &gortsplib.Server{
			Handler:        h,
			RTSPAddress:    net.JoinHostPort(listenIP, strconv.Itoa(b.Port)),
			ReadTimeout:    cfg.ReadTimeout,
			IdleTimeout:    cfg.IdleTimeout,
			WriteTimeout:   cfg.WriteTimeout,
			TLSConfig:      cfg.TLS,
			WriteQueueSize: cfg.WriteQueueSize,
			MaxPacketSize:  cfg.MaxPacketSize,
		}
		if cfg.UDP {
			b.UDPPort = FreeUDPPair(b.IP)
			s.UDPRTPAddress = net.JoinHostPort(listenIP, strconv.Itoa(b.UDPPort))
			s.UDPRTCPAddress = net.JoinHostPort(listenIP, strconv.Itoa(b.UDPPort+1))
		}
		if cfg.Multicast {
			b.McastPort = FreeUDPPair("0.0.0.0")
			s.MulticastIPRange = "224.1.0.0/16"
			s.MulticastRTPPort = b.McastPort
			s.MulticastRTCPPort = b.McastPort + 1
		}
		if cfg.CheckPeriod != 0 || cfg.ReportPeriod != 0 {
			gortsplib.VerifSetServerKnobs(s, nil, cfg.ReportPeriod, cfg.ReportPeriod, cfg.CheckPeriod)
		}
		if cfg.Extra != nil {
			cfg.Extra(s)
		}
		if err := s.Start(); err != nil {
			lastErr = err
			continue
		}
		b.S = s
		break
	}
	if b.S == nil {
		return nil, lastErr
	}
	n := cfg.Medias
	if n == 0 {
		n = 2
	}
	b.Desc = DefaultDescX(n, cfg.ExtraFormats)
	if k := cfg.BackChannel; k > 0 && k-1 <= len(b.Desc.Medias) {
		bc := &description.Media{Type: description.MediaTypeAudio, IsBackChannel: true,
			Formats: []format.Format{&format.G711{PayloadTyp: 0, MULaw: true, SampleRate: 8000, ChannelCount: 1}}}
		ms := append([]*description.Media(nil), b.Desc.Medias[:k-1]...)
		ms = append(ms, bc)
		b.Desc.Medias = append(ms, b.Desc.Medias[k-1:]...)
	}
	b.Stream = &gortsplib.ServerStream{Server: b.S, Desc: b.Desc}
	if err := b.Stream.Initialize(); err != nil {
		b.S.Close()
		return nil, err
	}
	return b, nil
}

// Close stops the bed.
func (b *Bed) Close() {
	b.Stream.Close()
	b.S.Close()
}

// URL returns the base URL of the served stream.
func (b *Bed) URL(path string) string {
	scheme := "rtsp"
	if b.Cfg.TLS != nil {
		scheme = "rtsps"
	}
	return fmt.Sprintf("%s://%s/%s", scheme, net.JoinHostPort(b.IP, strconv.Itoa(b.Port)), path)
}

// CurrentSession returns the most recently opened session if its close has not been notified.
func (b *Bed) CurrentSession() *gortsplib.ServerSession {
	b.mu.Lock()
	defer b.mu.Unlock()
	if b.sessOpen > b.sessClose && len(b.sessions) > 0 {
		return b.sessions[len(b.sessions)-1]
	}
	return nil
}

// SessID returns the index (1-based, in open order) of a session, 0 if unknown.
func (b *Bed) SessID(ss *gortsplib.ServerSession) int {
	b.mu.Lock()
	defer b.mu.Unlock()
	return b.sessIDs[ss]
}

// ConnID returns the index (1-based, in open order) of a connection, 0 if unknown.
func (b *Bed) ConnID(sc *gortsplib.ServerConn) int {
	b.mu.Lock()
	defer b.mu.Unlock()
	return b.connIDs[sc]
}

// Emit lets drivers add events to the bed's current trace.
func (b *Bed) Emit(ev string, kv ...any) { b.emit(ev, kv...) }

// LastSession returns the most recently opened session, closed or not.
func (b *Bed) LastSession() *gortsplib.ServerSession {
	b.mu.Lock()
	defer b.mu.Unlock()
	if len(b.sessions) > 0 {
		return b.sessions[len(b.sessions)-1]
	}
	return nil
}

// Counters returns (sessions opened, sessions closed, conns opened, conns closed).
func (b *Bed) Counters() (int, int, int, int) {
	b.mu.Lock()
	defer b.mu.Unlock()
	return b.sessOpen, b.sessClose, b.connOpen, b.connClose
}

// WaitUntil waits until pred (evaluated under the bed's mutex with the counters) holds, or timeout.
func (b *Bed) WaitUntil(timeout time.Duration, pred func(sessOpen, sessClose, connOpen, connClose int) bool) bool {
	deadline := time.Now().Add(timeout)
	stop := make(chan struct{})
	go func() {
		select {
		case <-time.After(timeout):
			b.mu.Lock()
			b.cond.Broadcast()
			b.mu.Unlock()
		case <-stop:
		}
	}()
	defer close(stop)
	b.mu.Lock()
	defer b.mu.Unlock()
	for !pred(b.sessOpen, b.sessClose, b.connOpen, b.connClose) {
		if time.Now().After(deadline) {
			return false
		}
		b.cond.Wait()
	}
	return true
}

// ForgetSessions drops references to closed sessions (between scenarios).
func (b *Bed) ForgetSessions() {
	b.mu.Lock()
	if b.sessOpen == b.sessClose {
		b.sessions = b.sessions[:0]
	}
	b.mu.Unlock()
}

// ---- raw peer -----------------------------------------------------------------

// Peer is a raw RTSP peer over one TCP connection.
type Peer struct {
	N       net.Conn
	C       *conn.Conn
	CSeq    int
	Timeout time.Duration
	Frames  int // interleaved frames seen
}

// Dial opens a raw connection to the bed.
func (b *Bed) Dial() (*Peer, error) {
	n, err := net.DialTimeout("tcp", net.JoinHostPort(b.IP, strconv.Itoa(b.Port)), 3*time.Second)
	if err != nil {
		return nil, err
	}
	if b.Cfg.TLS != nil {
		n = tls.Client(n, &tls.Config{InsecureSkipVerify: true})
	}
	return &Peer{N: n, C: conn.NewConn(bufio.NewReader(n), n), Timeout: 5 * time.Second}, nil
}

// Result of one request.
type Result struct {
	Res     *base.Response
	NResp   int  // responses received for this request (0: none before close/timeout)
	CSeqOK  bool // the response echoes the request's CSeq
	Closed  bool // the server closed the connection instead of / after answering
	Timeout bool // nothing arrived within the timeout (hang)
}

// Do sends req (CSeq is filled in) and reads one response, skipping interleaved frames.
func (p *Peer) Do(req *base.Request) Result {
	p.CSeq++
	if req.Header == nil {
		req.Header = base.Header{}
	}
	cs := strconv.Itoa(p.CSeq)
	req.Header["CSeq"] = base.HeaderValue{cs}
	p.N.SetWriteDeadline(time.Now().Add(p.Timeout))
	if err := p.C.WriteRequest(req); err != nil {
		return Result{Closed: true}
	}
	return p.ReadResponse(cs)
}

// ReadResponse reads the next response.
func (p *Peer) ReadResponse(cs string) Result {
	p.N.SetReadDeadline(time.Now().Add(p.Timeout))
	for {
		what, err := p.C.Read()
		if err != nil {
			if ne, ok := err.(net.Error); ok && ne.Timeout() {
				return Result{Timeout: true}
			}
			return Result{Closed: true}
		}
		switch x := what.(type) {
		case *base.Response:
			r := Result{Res: x, NResp: 1}
			if v, ok := x.Header["CSeq"]; ok && len(v) == 1 && v[0] == cs {
				r.CSeqOK = true
			}
			return r
		case *base.InterleavedFrame:
			p.Frames++
		case *base.Request:
			// server-originated request: ignore
		}
	}
}

// Drain reads for a short while and reports whether an unsolicited response arrived and
// whether the server closed the connection.
func (p *Peer) Drain(d time.Duration) (extra int, closed bool) {
	p.N.SetReadDeadline(time.Now().Add(d))
	for {
		what, err := p.C.Read()
		if err != nil {
			if ne, ok := err.(net.Error); ok && ne.Timeout() {
				return extra, false
			}
			return extra, true
		}
		if _, ok := what.(*base.Response); ok {
			extra++
		}
	}
}

// Close closes the peer's connection.
func (p *Peer) Close() { p.N.Close() }

// MustURL parses a URL.
func MustURL(s string) *base.URL {
	u, err := base.ParseURL(s)
	if err != nil {
		panic(err)
	}
	return u
}
