package bed

import (
	"bufio"
	"crypto/tls"
	"encoding/base64"
	"fmt"
	"net"
	"strconv"
	"strings"
	"sync/atomic"
	"time"

	"github.com/bluenviron/gortsplib/v5/pkg/conn"
)

// tunnelConn is the client side of an RTSP-over-HTTP tunnel made of two raw TCP connections:
// what is written goes, base64-encoded, to the POST half; what is read comes from the GET half.
type tunnelConn struct {
	get, post net.Conn
	br        *bufio.Reader
}

func (t *tunnelConn) Read(p []byte) (int, error) { return t.br.Read(p) }
func (t *tunnelConn) Write(p []byte) (int, error) {
	_, err := t.post.Write([]byte(base64.StdEncoding.EncodeToString(p)))
	if err != nil {
		return 0, err
	}
	return len(p), nil
}
func (t *tunnelConn) Close() error {
	t.post.Close()
	return t.get.Close()
}
func (t *tunnelConn) LocalAddr() net.Addr  { return t.get.LocalAddr() }
func (t *tunnelConn) RemoteAddr() net.Addr { return t.get.RemoteAddr() }
func (t *tunnelConn) SetDeadline(d time.Time) error {
	t.post.SetWriteDeadline(d) //nolint:errcheck
	return t.get.SetReadDeadline(d)
}
func (t *tunnelConn) SetReadDeadline(d time.Time) error  { return t.get.SetReadDeadline(d) }
func (t *tunnelConn) SetWriteDeadline(d time.Time) error { return t.post.SetWriteDeadline(d) }

var tunnelCookie atomic.Int64

// DialTunnelHTTP opens a raw RTSP-over-HTTP tunnel (GET half, then POST half with the same
// session cookie) and returns a Peer that talks RTSP through it. The two underlying
// connections are returned too (to observe whether the server closes them, or to abort one);
// on a TLS bed these are the TCP connections underneath the TLS ones the peer talks through.
func (b *Bed) DialTunnelHTTP() (*Peer, net.Conn, net.Conn, error) {
	host := net.JoinHostPort(b.IP, strconv.Itoa(b.Port))
	cookie := fmt.Sprintf("bedtunnel-%d-%d", time.Now().UnixNano(), tunnelCookie.Add(1))
	for attempt := 0; ; attempt++ {
		rawGet, err := net.DialTimeout("tcp", host, 3*time.Second)
		if err != nil {
			return nil, nil, nil, err
		}
		get := rawGet
		if b.Cfg.TLS != nil {
			get = tls.Client(rawGet, ClientTLS())
		}
		fmt.Fprintf(get, "GET /stream HTTP/1.1\r\nHost: %s\r\nx-sessioncookie: %s\r\nAccept: application/x-rtsp-tunnelled\r\n\r\n", host, cookie)
		br := bufio.NewReader(get)
		get.SetReadDeadline(time.Now().Add(3 * time.Second)) //nolint:errcheck
		line, err := br.ReadString('\n')
		if err != nil || !strings.Contains(line, "200") {
			get.Close()
			return nil, nil, nil, fmt.Errorf("tunnel GET refused: %q %v", line, err)
		}
		for {
			l, err := br.ReadString('\n')
			if err != nil || l == "\r\n" {
				break
			}
		}
		get.SetReadDeadline(time.Time{})  //nolint:errcheck
		time.Sleep(20 * time.Millisecond) // the server registers the GET half after answering it
		rawPost, err := net.DialTimeout("tcp", host, 3*time.Second)
		if err != nil {
			get.Close()
			return nil, nil, nil, err
		}
		post := rawPost
		if b.Cfg.TLS != nil {
			post = tls.Client(rawPost, ClientTLS())
		}
		fmt.Fprintf(post, "POST /stream HTTP/1.1\r\nHost: %s\r\nx-sessioncookie: %s\r\nContent-Type: application/x-rtsp-tunnelled\r\nContent-Length: 32767\r\n\r\n", host, cookie)
		tc := &tunnelConn{get: get, post: post, br: br}
		return &Peer{N: tc, C: conn.NewConn(bufio.NewReader(tc), tc), Timeout: 5 * time.Second}, rawGet, rawPost, nil
	}
}
