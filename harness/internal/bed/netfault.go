package bed

import (
	"fmt"
	"math/rand"
	"net"
	"sync"
	"syscall"
)

// ReorderConn wraps a PacketConn and, with probability Pct/100, delivers a datagram AFTER
// the one that follows it (adjacent swap), as a network may, and with probability Dup/100
// delivers a datagram twice in a row. Nothing is dropped or altered.
type ReorderConn struct {
	net.PacketConn
	Pct int
	Dup int
	mu  sync.Mutex
	rng *rand.Rand
	// a datagram held back, to be returned by the next ReadFrom
	held     []byte
	heldAddr net.Addr
}

// NewReorderConn wraps pc.
func NewReorderConn(pc net.PacketConn, pct int, seed int64) *ReorderConn {
	return &ReorderConn{PacketConn: pc, Pct: pct, rng: rand.New(rand.NewSource(seed))}
}

// SyscallConn and SetReadBuffer are required by the library (it type-asserts them).
func (c *ReorderConn) SyscallConn() (syscall.RawConn, error) {
	if u, ok := c.PacketConn.(*net.UDPConn); ok {
		return u.SyscallConn()
	}
	return nil, fmt.Errorf("not a UDP connection")
}

// SetReadBuffer forwards to the wrapped connection.
func (c *ReorderConn) SetReadBuffer(n int) error {
	if u, ok := c.PacketConn.(*net.UDPConn); ok {
		return u.SetReadBuffer(n)
	}
	return nil
}

// ReadFrom implements net.PacketConn.
func (c *ReorderConn) ReadFrom(p []byte) (int, net.Addr, error) {
	c.mu.Lock()
	if c.held != nil {
		n := copy(p, c.held)
		a := c.heldAddr
		c.held = nil
		c.mu.Unlock()
		return n, a, nil
	}
	swap := c.rng.Intn(100) < c.Pct
	c.mu.Unlock()
	n, addr, err := c.PacketConn.ReadFrom(p)
	if err == nil && !swap && c.Dup > 0 {
		c.mu.Lock()
		if c.rng.Intn(100) < c.Dup {
			c.held, c.heldAddr = append([]byte(nil), p[:n]...), addr // delivered again by the next read
		}
		c.mu.Unlock()
	}
	if err != nil || !swap {
		return n, addr, err
	}
	// hold this datagram back and deliver the following one first. The read deadline is
	// never touched: the library uses it to stop its listener.
	first := append([]byte(nil), p[:n]...)
	n2, addr2, err2 := c.PacketConn.ReadFrom(p)
	if err2 != nil {
		// the listener is being stopped: the held datagram is lost with it
		return n2, addr2, err2
	}
	c.mu.Lock()
	c.held, c.heldAddr = first, addr
	c.mu.Unlock()
	return n2, addr2, nil
}
