package bed

import (
	"crypto/ecdsa"
	"crypto/elliptic"
	"crypto/rand"
	"crypto/tls"
	"crypto/x509"
	"crypto/x509/pkix"
	"encoding/binary"
	"fmt"
	"math/big"
	"net"
	"os"
	"sync"
	"time"

	"github.com/bluenviron/gortsplib/v5"
	"github.com/bluenviron/gortsplib/v5/pkg/base"
	"github.com/bluenviron/gortsplib/v5/pkg/description"
	"github.com/bluenviron/gortsplib/v5/pkg/format"
	"github.com/bluenviron/gortsplib/v5/pkg/headers"
	"github.com/pion/rtp"
)

// SelfSignedTLS returns a server TLS configuration with a fresh self-signed certificate.
func SelfSignedTLS() *tls.Config {
	key, err := ecdsa.GenerateKey(elliptic.P256(), rand.Reader)
	if err != nil {
		panic(err)
	}
	tmpl := &x509.Certificate{
		SerialNumber: big.NewInt(1),
		Subject:      pkix.Name{CommonName: "verif"},
		NotBefore:    time.Now().Add(-time.Hour),
		NotAfter:     time.Now().Add(24 * time.Hour),
		KeyUsage:     x509.KeyUsageDigitalSignature,
		ExtKeyUsage:  []x509.ExtKeyUsage{x509.ExtKeyUsageServerAuth},
		DNSNames:     []string{"localhost"},
	}
	der, err := x509.CreateCertificate(rand.Reader, tmpl, tmpl, &key.PublicKey, key)
	if err != nil {
		panic(err)
	}
	return &tls.Config{Certificates: []tls.Certificate{{Certificate: [][]byte{der}, PrivateKey: key}}}
}

// ClientTLS returns a client TLS configuration accepting the bed's self-signed certificate.
func ClientTLS() *tls.Config { return &tls.Config{InsecureSkipVerify: true} }

// ---- identifiable packets -----------------------------------------------------------

// PacketSpec describes what the writer puts in the packet with a given (k, id): everything
// is a function of (k, id) and the per-stream constants, so a receiver can recompute it.
type PacketSpec struct {
	Seq0  [8]uint16 // initial sequence number per media (chosen so that the run wraps)
	TS0   [8]uint32 // initial timestamp per media
	MaxPL int       // maximum payload length
	// ArbSeq: sequence numbers are an arbitrary function of (k, id) - repeats, jumps and
	// backward steps included (only meaningful on reliable transports)
	ArbSeq bool
	// Wide: every 17th packet has the maximum payload length and every 19th the minimum, the
	// markers follow no frame pattern, timestamps jitter around their slope, backward steps included
	Wide bool
}

func (ps *PacketSpec) seq(k, id int) uint16 {
	if !ps.ArbSeq {
		return ps.Seq0[k] + uint16(id)
	}
	x := uint32(id)*2246822519 + uint32(k)*3266489917 + uint32(ps.Seq0[k])
	x ^= x >> 15
	x *= 2654435761
	if id%5 == 0 { // a repeat of the previous number
		return ps.seq(k, id-1)
	}
	return uint16(x >> 13)
}

// Make builds packet (k, id), k 1-based media index, id 1-based.
func (ps *PacketSpec) Make(k, id int, pt uint8) *rtp.Packet {
	n := 12 + (id*37+k*11)%(ps.MaxPL-12)
	marker := id%3 == 0
	ts := ps.TS0[k] + uint32(id)*3000
	if ps.Wide {
		switch {
		case id%17 == 0:
			n = ps.MaxPL
		case id%19 == 0:
			n = 12
		}
		h := uint32(id)*2654435761 + uint32(k)*97
		marker = (h>>9)&3 == 0
		ts += (h>>12)%9000 - 4500
	}
	pl := make([]byte, n)
	pl[0] = 0x41 // H264: non-IDR slice; opaque for other formats
	pl[1] = byte(k)
	binary.BigEndian.PutUint32(pl[2:], uint32(id))
	x := uint32(id)*2654435761 + uint32(k)*40503
	for i := 6; i < n; i++ {
		x = x*1664525 + 1013904223
		pl[i] = byte(x >> 24)
	}
	return &rtp.Packet{
		Header: rtp.Header{
			Version:        2,
			PayloadType:    pt,
			Marker:         marker,
			SequenceNumber: ps.seq(k, id),
			Timestamp:      ts,
			SSRC:           0x1234ABCD,
		},
		Payload: pl,
	}
}

// Identify extracts (k, id) from a payload; ok is false if the payload is not one of ours.
func Identify(pl []byte) (k, id int, ok bool) {
	if len(pl) < 12 || pl[0] != 0x41 {
		return 0, 0, false
	}
	return int(pl[1]), int(binary.BigEndian.Uint32(pl[2:])), true
}

// Same reports whether pkt carries exactly what Make(k, id) wrote (SSRC excluded: the server rewrites it).
func (ps *PacketSpec) Same(k, id int, pt uint8, pkt *rtp.Packet) bool {
	if k < 1 || k >= len(ps.Seq0) || id < 1 {
		return false
	}
	w := ps.Make(k, id, pt)
	if pkt.Marker != w.Marker || pkt.Timestamp != w.Timestamp || pkt.SequenceNumber != w.SequenceNumber ||
		pkt.PayloadType != w.PayloadType || len(pkt.Payload) != len(w.Payload) {
		return false
	}
	for i := range w.Payload {
		if pkt.Payload[i] != w.Payload[i] {
			return false
		}
	}
	return true
}

// ---- reading client -------------------------------------------------------------------

// ReaderCfg selects a reading client's transport.
type ReaderCfg struct {
	Proto   string // "tcp" | "udp" | "mcast" (the bed must offer multicast) | "auto" (Client.Protocol left nil)
	Tunnel  string // "" | "http" | "ws"
	Timeout time.Duration
	Reorder int   // percentage of inbound UDP datagrams swapped with their successor
	Dup     int   // percentage of inbound UDP datagrams delivered twice
	Seed    int64 // seed of the reordering
	Extra   func(c *gortsplib.Client)
	// AfterDescribe, when set, runs between the reader's DESCRIBE and its SETUPs
	AfterDescribe func()
}

// Reader is a real gortsplib.Client reading from a bed.
type Reader struct {
	C      *gortsplib.Client
	Desc   *description.Session
	Cfg    ReaderCfg
	mu     sync.Mutex
	ssrcs  []uint32 // announced in SETUP responses, in SETUP order (0: none)
	closed bool
}

// NewReader connects (DESCRIBE + SETUP of all medias); OnPacket is installed before PLAY.
func (b *Bed) NewReader(cfg ReaderCfg, path string, onPacket func(medi *description.Media, forma format.Format, pkt *rtp.Packet)) (*Reader, error) {
	r, err := b.newReader(cfg, path, onPacket)
	if err != nil && cfg.Tunnel == "http" && cfg.AfterDescribe == nil {
		// the server answers a tunnel GET before it has registered it: a POST that overtakes the
		// registration is refused (see spec/TunnelPair.tla). Rare, not what the callers study:
		// one more attempt.
		time.Sleep(50 * time.Millisecond)
		r, err = b.newReader(cfg, path, onPacket)
	}
	return r, err
}

func (b *Bed) newReader(cfg ReaderCfg, path string, onPacket func(medi *description.Media, forma format.Format, pkt *rtp.Packet)) (*Reader, error) {
	r := &Reader{Cfg: cfg}
	scheme := "rtsp"
	if b.Cfg.TLS != nil {
		scheme = "rtsps"
	}
	c := &gortsplib.Client{
		Scheme:                scheme,
		Host:                  fmt.Sprintf("%s:%d", b.IP, b.Port),
		InitialUDPReadTimeout: 60 * time.Second,
		ReadTimeout:           cfg.Timeout,
		WriteTimeout:          cfg.Timeout,
	}
	if b.Cfg.TLS != nil {
		c.TLSConfig = &tls.Config{InsecureSkipVerify: true}
	}
	switch cfg.Proto {
	case "udp":
		p := gortsplib.ProtocolUDP
		c.Protocol = &p
	case "mcast":
		p := gortsplib.ProtocolUDPMulticast
		c.Protocol = &p
	case "auto":
		// no protocol chosen: UDP first, TCP when nothing arrives
	default:
		p := gortsplib.ProtocolTCP
		c.Protocol = &p
	}
	switch cfg.Tunnel {
	case "http":
		c.Tunnel = gortsplib.TunnelHTTP
	case "ws":
		c.Tunnel = gortsplib.TunnelWebSocket
	}
	c.OnResponse = func(res *base.Response) {
		if v, ok := res.Header["Transport"]; ok {
			var th headers.Transport
			if th.Unmarshal(v) == nil {
				r.mu.Lock()
				if th.SSRC != nil {
					r.ssrcs = append(r.ssrcs, *th.SSRC)
				} else {
					r.ssrcs = append(r.ssrcs, 0)
				}
				r.mu.Unlock()
			}
		}
	}
	if cfg.Reorder > 0 || cfg.Dup > 0 {
		c.ListenPacket = func(network, address string) (net.PacketConn, error) {
			pc, err := net.ListenPacket(network, address)
			if err != nil {
				return nil, err
			}
			rc := NewReorderConn(pc, cfg.Reorder, cfg.Seed)
			rc.Dup = cfg.Dup
			return rc, nil
		}
	}
	c.OnPacketsLost = func(_ uint64) {}
	c.OnDecodeError = func(err error) {
		if os.Getenv("VERIF_DEBUG_DECODE") != "" { // development aid
			fmt.Fprintln(os.Stderr, "reader decode error:", err)
		}
	}
	if cfg.Extra != nil {
		cfg.Extra(c)
	}
	if err := c.Start(); err != nil {
		return nil, err
	}
	u := MustURL(b.URL(path))
	desc, _, err := c.Describe(u)
	if err != nil {
		c.Close()
		return nil, fmt.Errorf("describe: %w", err)
	}
	if cfg.AfterDescribe != nil {
		cfg.AfterDescribe()
	}
	if err = c.SetupAll(desc.BaseURL, desc.Medias); err != nil {
		c.Close()
		return nil, fmt.Errorf("setup: %w", err)
	}
	if onPacket != nil {
		c.OnPacketRTPAny(onPacket)
	}
	r.C = c
	r.Desc = desc
	return r, nil
}

// AnnouncedSSRC returns the SSRC announced in the i-th SETUP response (0: none).
func (r *Reader) AnnouncedSSRC(i int) uint32 {
	r.mu.Lock()
	defer r.mu.Unlock()
	if i < len(r.ssrcs) {
		return r.ssrcs[i]
	}
	return 0
}

// MediaIndex returns the 1-based index of medi in the reader's description.
func (r *Reader) MediaIndex(medi *description.Media) int {
	for i, m := range r.Desc.Medias {
		if m == medi {
			return i + 1
		}
	}
	return 0
}

// Close closes the client once.
func (r *Reader) Close() {
	r.mu.Lock()
	if r.closed {
		r.mu.Unlock()
		return
	}
	r.closed = true
	r.mu.Unlock()
	r.C.Close()
}
