package bed

import (
	"fmt"
	"net"
	"sync"
	"syscall"
)

// Tap records the sizes of what the library WRITES through wrapped sockets: UDP datagram
// payloads (WriteTo) and RTSP interleaved frames ('$' channel length payload) written on
// a stream connection. Nothing is altered, delayed or dropped.
//
// Interleaved frames are recognised per Write call: the library writes every frame (and
// every RTSP request / response) with a single Write, so a Write whose first byte is '$'
// is one frame; Declared is the length announced in the frame header, Size the number of
// bytes that actually follow the header in that Write (they differ if the library wrote a
// truncated or over-long frame).
type Tap struct {
	mu     sync.Mutex
	recs   []TapRec
	notify chan struct{}
}

// TapRec is one outbound media packet.
type TapRec struct {
	UDP      bool
	Port     int // UDP: destination port; TCP: interleaved channel
	Size     int // payload bytes written
	Declared int // TCP: length field of the frame header (UDP: = Size)
}

// NewTap allocates a tap.
func NewTap() *Tap { return &Tap{notify: make(chan struct{}, 1)} }

func (t *Tap) add(r TapRec) {
	t.mu.Lock()
	t.recs = append(t.recs, r)
	t.mu.Unlock()
	select {
	case t.notify <- struct{}{}:
	default:
	}
}

// Len returns the number of packets recorded so far.
func (t *Tap) Len() int {
	t.mu.Lock()
	defer t.mu.Unlock()
	return len(t.recs)
}

// Since returns a copy of the packets recorded from index i on.
func (t *Tap) Since(i int) []TapRec {
	t.mu.Lock()
	defer t.mu.Unlock()
	if i >= len(t.recs) {
		return nil
	}
	return append([]TapRec(nil), t.recs[i:]...)
}

// Notify is signalled (without blocking) whenever a packet is recorded.
func (t *Tap) Notify() <-chan struct{} { return t.notify }

// ---- UDP ----------------------------------------------------------------------------

type tapPacketConn struct {
	net.PacketConn
	t *Tap
}

// PacketConn wraps pc; the result also implements SyscallConn and SetReadBuffer, which
// the library requires.
func (t *Tap) PacketConn(pc net.PacketConn) net.PacketConn {
	return &tapPacketConn{PacketConn: pc, t: t}
}

// ListenPacket is a drop-in for net.ListenPacket.
func (t *Tap) ListenPacket(network, address string) (net.PacketConn, error) {
	pc, err := net.ListenPacket(network, address)
	if err != nil {
		return nil, err
	}
	return t.PacketConn(pc), nil
}

func (c *tapPacketConn) SyscallConn() (syscall.RawConn, error) {
	if u, ok := c.PacketConn.(*net.UDPConn); ok {
		return u.SyscallConn()
	}
	return nil, fmt.Errorf("not a UDP connection")
}

func (c *tapPacketConn) SetReadBuffer(n int) error {
	if u, ok := c.PacketConn.(*net.UDPConn); ok {
		return u.SetReadBuffer(n)
	}
	return nil
}

func (c *tapPacketConn) WriteTo(p []byte, addr net.Addr) (int, error) {
	port := 0
	if ua, ok := addr.(*net.UDPAddr); ok {
		port = ua.Port
	}
	n, err := c.PacketConn.WriteTo(p, addr)
	if err == nil {
		c.t.add(TapRec{UDP: true, Port: port, Size: len(p), Declared: len(p)})
	}
	return n, err
}

// ---- TCP ----------------------------------------------------------------------------

type tapConn struct {
	net.Conn
	t *Tap
}

// Conn wraps a stream connection (plain TCP, or the clear-text side of a tls.Conn).
func (t *Tap) Conn(c net.Conn) net.Conn { return &tapConn{Conn: c, t: t} }

func (c *tapConn) Write(p []byte) (int, error) {
	n, err := c.Conn.Write(p)
	if err == nil && len(p) >= 4 && p[0] == '$' {
		c.t.add(TapRec{Port: int(p[1]), Size: len(p) - 4, Declared: int(p[2])<<8 | int(p[3])})
	}
	return n, err
}

type tapListener struct {
	net.Listener
	t *Tap
}

// Listener wraps l: accepted connections are tapped.
func (t *Tap) Listener(l net.Listener) net.Listener { return &tapListener{Listener: l, t: t} }

func (l *tapListener) Accept() (net.Conn, error) {
	c, err := l.Listener.Accept()
	if err != nil {
		return nil, err
	}
	return l.t.Conn(c), nil
}
