package codecs

import (
	"fmt"
	"math/rand"
	"strings"
	"testing"
)

const (
	testFrames = 5  // consecutive frames through one encoder/decoder pair
	testSeeds  = 12 // independent runs per (codec, PayloadMaxSize)
)

func payloadMaxSizes(c *Codec) []int {
	ret := []int{c.MinPayloadMax}
	for _, v := range []int{100, 1450} {
		if v > c.MinPayloadMax {
			ret = append(ret, v)
		}
	}
	return ret
}

// requestSizes draws 1..3 unit sizes (1 where !MultiUnit) from 1..3*pms,
// respecting alignment and the codec's limits.
func requestSizes(c *Codec, rng *rand.Rand, pms int) []int {
	n := 1
	if c.MultiUnit {
		n += rng.Intn(3)
	}
	hi := 3 * pms
	if !c.Fragments { // simpleaudio: one packet, no size check in the encoder
		hi = pms
	}
	if c.MaxUnitSize > 0 {
		hi = min(hi, c.MaxUnitSize)
	}
	sz := make([]int, n)
	for i := range sz {
		v := 1 + rng.Intn(hi)
		if rng.Intn(4) == 0 { // favour the neighbourhood of the packet limit
			v = max(1, min(hi, pms-6+rng.Intn(12)))
		}
		sz[i] = max(v/c.UnitAlign, 1) * c.UnitAlign
	}
	return sz
}

// roundTrip encodes f and feeds the packets to dec, checking packet-level
// invariants and the decoding contract selected by FrameMode. It returns a
// description of the first violation, or "".
func roundTrip(c *Codec, enc Encoder, dec Decoder, f Frame, pms, frameIdx int, seq *uint16, ssrc uint32) string {
	pkts, err := enc.Encode(f)
	if err != nil {
		return fmt.Sprintf("Encode: %v", err)
	}
	if len(pkts) == 0 {
		return "Encode returned no packets"
	}
	base := *seq
	*seq += uint16(len(pkts)) // the encoder has moved on, whatever happens below
	var got Frame
	for i, pkt := range pkts {
		last := i == len(pkts)-1
		switch {
		case pkt.Version != 2 || pkt.PayloadType != c.PayloadType || pkt.SSRC != ssrc:
			return fmt.Sprintf("packet %d: bad header %+v", i, pkt.Header)
		case pkt.SequenceNumber != base+uint16(i):
			return fmt.Sprintf("packet %d: sequence number %d, want %d", i, pkt.SequenceNumber, base+uint16(i))
		case c.Fragments && len(pkt.Payload) > pms:
			return fmt.Sprintf("packet %d: payload of %d bytes exceeds PayloadMaxSize %d", i, len(pkt.Payload), pms)
		case len(pkt.Payload) == 0:
			return fmt.Sprintf("packet %d: empty payload", i)
		case c.Video && pkt.Marker != last:
			return fmt.Sprintf("packet %d/%d: marker %v", i+1, len(pkts), pkt.Marker)
		}
		pkt.Timestamp = uint32(frameIdx) * 3000

		units, err := dec.Decode(pkt)
		switch {
		case c.FrameMode && !last:
			if !IsMorePacketsNeeded(err) {
				return fmt.Sprintf("packet %d/%d: want ErrMorePacketsNeeded, got %d units, err %v", i+1, len(pkts), len(units), err)
			}
		case c.FrameMode:
			if err != nil {
				return fmt.Sprintf("last packet: %v", err)
			}
			got = units
		case err == nil:
			got = append(got, units...)
		case !IsMorePacketsNeeded(err) || !c.Stateful || last:
			return fmt.Sprintf("packet %d/%d: %v", i+1, len(pkts), err)
		}
	}
	if !c.Equal(f, got) {
		return fmt.Sprintf("decoded frame differs: %d units %v, want %d units %v", len(got), lens(got), len(f), lens(f))
	}
	return ""
}

func lens(f Frame) []int {
	ret := make([]int, len(f))
	for i, u := range f {
		ret[i] = len(u)
	}
	return ret
}

func TestRoundTrip(t *testing.T) {
	for _, c := range All() {
		for _, pms := range payloadMaxSizes(c) {
			t.Run(fmt.Sprintf("%s/%d", c.Name, pms), func(t *testing.T) {
				skipped := 0
				for seed := 0; seed < testSeeds; seed++ {
					rng := rand.New(rand.NewSource(int64(seed)*1000 + int64(pms)))
					seq, ssrc := uint16(65530+seed), uint32(0x1000+seed) // the sequence number wraps
					enc, err := c.NewEncoder(pms, seq, ssrc)
					if err != nil {
						t.Fatal(err)
					}
					dec, err := c.NewDecoder()
					if err != nil {
						t.Fatal(err)
					}
					if dec.Raw() == nil {
						t.Fatal("Raw() == nil")
					}
					for fi := 0; fi < testFrames; fi++ {
						sz := requestSizes(c, rng, pms)
						f := c.GenFrame(rng, sz)
						checkGenerated(t, c, sz, f)

						known := ""
						if c.KnownDefect != nil {
							known = c.KnownDefect(pms, f)
						}
						res := roundTrip(c, enc, dec, f, pms, fi, &seq, ssrc)
						switch {
						case known != "" && res != "":
							// library defect, see the final report: not hidden, not worked around
							if skipped == 0 {
								t.Logf("SKIPPED (library defect) seed %d frame %d units %v: %s; observed: %s", seed, fi, sz, known, res)
							}
							skipped++
							// the decoder may be left in the middle of a frame
							if dec, err = c.NewDecoder(); err != nil {
								t.Fatal(err)
							}
						case known != "":
							t.Errorf("seed %d frame %d units %v: predicted defect did not show: %s", seed, fi, sz, known)
						case res != "":
							t.Errorf("seed %d frame %d units %v: %s", seed, fi, sz, res)
							return
						}
					}
				}
				if skipped > 0 {
					t.Logf("%d of %d frames skipped because of the known library defect", skipped, testSeeds*testFrames)
				}
			})
		}
	}
}

// checkGenerated verifies GenFrame's own contract.
func checkGenerated(t *testing.T, c *Codec, sz []int, f Frame) {
	t.Helper()
	want := len(sz)
	if !c.MultiUnit {
		want = 1
	}
	if len(f) != want {
		t.Fatalf("GenFrame(%v): %d units", sz, len(f))
	}
	for i, u := range f {
		n := max(sz[i], c.MinUnitSize)
		if c.MaxUnitSize > 0 {
			n = min(n, c.MaxUnitSize)
		}
		switch {
		case c.Name == "mjpeg":
			if ji, ok := parseJPEG(u); !ok || len(ji.data) != n {
				t.Fatalf("GenFrame(%v): bad JPEG", sz)
			}
		case c.Exact && len(u) != n:
			t.Fatalf("GenFrame(%v): unit %d has %d bytes, want %d", sz, i, len(u), n)
		case len(u) < c.MinUnitSize || c.MaxUnitSize > 0 && len(u) > c.MaxUnitSize || len(u)%c.UnitAlign != 0:
			t.Fatalf("GenFrame(%v): unit %d has %d bytes", sz, i, len(u))
		}
	}
}

// GenFrame must be a function of (rng state, sizes) only.
func TestGenFrameDeterministic(t *testing.T) {
	for _, c := range All() {
		sz := []int{700, 3, 64}
		a := c.GenFrame(rand.New(rand.NewSource(7)), sz)
		b := c.GenFrame(rand.New(rand.NewSource(7)), sz)
		if !equalUnits(a, b) {
			t.Errorf("%s: GenFrame is not deterministic", c.Name)
		}
		if !c.Equal(a, b) || c.Equal(a, c.GenFrame(rand.New(rand.NewSource(8)), sz)) {
			t.Errorf("%s: Equal is wrong", c.Name)
		}
		if len(c.GenFrame(rand.New(rand.NewSource(7)), nil)) != 1 {
			t.Errorf("%s: GenFrame(nil) must give one unit", c.Name)
		}
	}
}

// Every exact-size codec must honour every size from its minimum upwards.
func TestGenFrameExactSizes(t *testing.T) {
	rng := rand.New(rand.NewSource(1))
	for _, c := range All() {
		if !c.Exact {
			continue
		}
		for n := c.MinUnitSize; n <= 70000; n += c.UnitAlign {
			if c.MaxUnitSize > 0 && n > c.MaxUnitSize {
				break
			}
			if f := c.GenFrame(rng, []int{n}); len(f[0]) != n {
				t.Fatalf("%s: size %d gives %d", c.Name, n, len(f[0]))
			}
			if n > 600 { // dense below, sparse above
				n += 997 / c.UnitAlign * c.UnitAlign
			}
		}
	}
}

func TestRegistry(t *testing.T) {
	names := []string{
		"h264", "h265", "av1", "vp8", "vp9", "mpeg4audio", "mpeg4audio-6-2", "mpeg4audio-13-3-0",
		"mpeg4audio-6-2-4", "fragmented", "mpeg1audio",
		"mpeg1video", "mjpeg", "ac3", "lpcm", "lpcm-24-1", "simpleaudio", "mpegts", "klv",
	}
	if len(All()) != len(names) {
		t.Fatalf("%d codecs", len(All()))
	}
	for i, n := range names {
		if All()[i].Name != n || ByName(n) != All()[i] {
			t.Errorf("codec %d is %s, want %s", i, All()[i].Name, n)
		}
	}
	if ByName("nope") != nil {
		t.Error("ByName(nope)")
	}
}

// A non-starting fragment fed to a fresh decoder must be classified by
// IsNonStarting (for the decoders that have the error), and an intermediate
// fragment by IsMorePacketsNeeded.
func TestErrorClassification(t *testing.T) {
	for _, c := range All() {
		if !c.Stateful || c.Name == "mpeg4audio-6-2" || c.Name == "mpeg4audio-6-2-4" {
			continue
		}
		rng := rand.New(rand.NewSource(3))
		pms := max(c.MinPayloadMax, 100)
		enc, _ := c.NewEncoder(pms, 1, 2)
		size := 5 * pms
		if c.MaxUnitSize > 0 {
			size = min(size, c.MaxUnitSize)
		}
		pkts, err := enc.Encode(c.GenFrame(rng, []int{size}))
		if err != nil || len(pkts) < 3 {
			t.Fatalf("%s: %d packets, %v", c.Name, len(pkts), err)
		}
		dec, _ := c.NewDecoder()
		if _, err = dec.Decode(pkts[0]); !IsMorePacketsNeeded(err) || IsNonStarting(err) {
			t.Errorf("%s: first packet: %v", c.Name, err)
		}
		// each later packet alone, on a fresh decoder
		nonStarting := 0
		for _, pkt := range pkts[1:] {
			dec, _ = c.NewDecoder()
			_, err = dec.Decode(pkt)
			switch {
			case IsNonStarting(err) && !IsMorePacketsNeeded(err):
				nonStarting++
			case err != nil && !IsMorePacketsNeeded(err):
				t.Errorf("%s: lone packet: %v", c.Name, err)
			}
		}
		// rtpmpeg4audio and rtpfragmented cannot tell and take any packet as a start
		if hasErr := !strings.HasPrefix(c.Name, "mpeg4audio") && c.Name != "fragmented"; hasErr != (nonStarting > 0) {
			t.Errorf("%s: %d lone packets of %d classified as non-starting", c.Name, nonStarting, len(pkts)-1)
		}
	}
	if IsMorePacketsNeeded(nil) || IsNonStarting(nil) || IsNonStarting(fmt.Errorf("x")) {
		t.Error("misclassified")
	}
}
