// Package codecs gives a uniform interface over the 15 RTP payload
// encoder/decoder pairs of gortsplib (pkg/format/rtp*), plus generators of
// VALID input frames for each of them, so that one generic driver can check
// round-trip, size-limit, marker and state properties for every format.
//
// "Valid" is meant at the level the payload formats care about (unit header
// syntax, start-code emulation, size limits, parsable frame headers); the
// entropy-coded contents are pseudo-random bytes.
package codecs

import (
	"bytes"
	"errors"
	"fmt"
	"math/rand"

	"github.com/bluenviron/gortsplib/v5/pkg/format/rtpac3"
	"github.com/bluenviron/gortsplib/v5/pkg/format/rtpav1"
	"github.com/bluenviron/gortsplib/v5/pkg/format/rtpfragmented"
	"github.com/bluenviron/gortsplib/v5/pkg/format/rtph264"
	"github.com/bluenviron/gortsplib/v5/pkg/format/rtph265"
	"github.com/bluenviron/gortsplib/v5/pkg/format/rtpklv"
	"github.com/bluenviron/gortsplib/v5/pkg/format/rtplpcm"
	"github.com/bluenviron/gortsplib/v5/pkg/format/rtpmjpeg"
	"github.com/bluenviron/gortsplib/v5/pkg/format/rtpmpeg1audio"
	"github.com/bluenviron/gortsplib/v5/pkg/format/rtpmpeg1video"
	"github.com/bluenviron/gortsplib/v5/pkg/format/rtpmpeg4audio"
	"github.com/bluenviron/gortsplib/v5/pkg/format/rtpmpegts"
	"github.com/bluenviron/gortsplib/v5/pkg/format/rtpsimpleaudio"
	"github.com/bluenviron/gortsplib/v5/pkg/format/rtpvp8"
	"github.com/bluenviron/gortsplib/v5/pkg/format/rtpvp9"
	"github.com/bluenviron/mediacommon/v2/pkg/codecs/av1"
	"github.com/bluenviron/mediacommon/v2/pkg/codecs/h264"
	"github.com/bluenviron/mediacommon/v2/pkg/codecs/h265"
	"github.com/bluenviron/mediacommon/v2/pkg/codecs/mpeg4audio"
	"github.com/bluenviron/mediacommon/v2/pkg/codecs/mpeg4video"
	"github.com/bluenviron/mediacommon/v2/pkg/codecs/vp8"
	"github.com/bluenviron/mediacommon/v2/pkg/codecs/vp9"
	"github.com/pion/rtp"
)

// Frame is a list of units: NAL units of an access unit, OBUs of a temporal
// unit, audio frames/AUs of a group, TS packets of a group. Formats whose
// Encode takes a single []byte use a 1-element Frame.
type Frame = [][]byte

// Encoder wraps a real Encoder.
type Encoder interface {
	// Encode wraps the real Encoder.Encode (rtpsimpleaudio: the single packet
	// is wrapped in a slice). Single-[]byte formats require len(f) == 1.
	Encode(f Frame) ([]*rtp.Packet, error)
}

// Decoder wraps a real Decoder.
type Decoder interface {
	// Decode wraps the real Decoder.Decode; single []byte results become a
	// 1-element Frame; errors are passed through unchanged. Returned slices are
	// NOT copied (they alias whatever the real decoder returns).
	Decode(pkt *rtp.Packet) (Frame, error)
	// Raw returns the real *Decoder.
	Raw() any
}

// Codec describes one payload format.
type Codec struct {
	Name string
	// Video: video format: the RTP marker must be set on the packet completing a
	// frame and on no other. (The same rule happens to hold for klv.)
	Video bool
	// Fragments: the encoder splits a frame/unit over several packets when
	// needed, i.e. the PayloadMaxSize limit applies to every packet.
	Fragments bool
	// FrameMode true: the decoder returns the WHOLE frame at the frame's last
	// packet and ErrMorePacketsNeeded before it. false ("group" formats): each
	// packet may be independently decodable (a fragmented unit still yields
	// ErrMorePacketsNeeded until its last fragment), and the CONCATENATION of the
	// unit lists the decoder returns over the frame's packets equals the frame.
	// lpcm is the one group format whose Encode takes a single []byte: there the
	// decoder returns one chunk of samples per packet and Equal compares the
	// concatenated BYTES (PCM has no unit boundaries).
	FrameMode bool
	// Stateful: the decoder keeps state between packets.
	Stateful bool
	// MultiUnit: a frame may contain several units.
	MultiUnit bool
	// MaxFrameSize is the decoder's maximum frame size in bytes, 0 if none.
	// mpeg4audio: the limit is per (fragmented) access unit.
	MaxFrameSize int
	// MinPayloadMax is the smallest PayloadMaxSize for which the encoder works
	// sensibly (see the per-codec comments for what happens below it).
	MinPayloadMax int
	// UnitAlign: unit sizes must be a multiple of this.
	UnitAlign int
	// PayloadType the encoder puts in packets.
	PayloadType uint8
	// NewEncoder sets PayloadMaxSize (0 = library default), InitialSequenceNumber,
	// SSRC, PayloadType 96 where configurable, and calls Init. vp9 additionally
	// gets InitialPictureID = uint16(ssrc) so that output is deterministic.
	NewEncoder func(payloadMaxSize int, initialSeq uint16, ssrc uint32) (Encoder, error)
	NewDecoder func() (Decoder, error)
	// GenFrame builds a VALID frame whose units have the requested sizes as
	// closely as the format allows (exactly, whenever the format allows arbitrary
	// sizes), filled with pseudo-random bytes from rng. Deterministic given rng.
	// Non-MultiUnit codecs use unitSizes[0] only. An empty unitSizes means one
	// unit of minimum size.
	GenFrame func(rng *rand.Rand, unitSizes []int) Frame
	// Equal reports whether the decoded frame equals the original.
	Equal func(orig, got Frame) bool

	// Extra fields (not needed by a minimal driver).

	// MinUnitSize/MaxUnitSize: range to which GenFrame clamps each requested
	// unit size (MaxUnitSize 0 = unbounded). Inside the range, Exact tells
	// whether the size is honoured exactly.
	MinUnitSize, MaxUnitSize int
	Exact                    bool
	// MaxUnits is the decoder's limit on units per frame, 0 if none.
	MaxUnits int
	// KnownDefect, if not nil, returns a non-empty description when encoding f
	// with the given PayloadMaxSize triggers a known library defect that breaks
	// the round trip. GenFrame does not avoid such inputs.
	KnownDefect func(payloadMaxSize int, f Frame) string
}

// --- wrappers ---

type initer interface{ Init() error }

type multiEnc interface {
	initer
	Encode([][]byte) ([]*rtp.Packet, error)
}

type singleEnc interface {
	initer
	Encode([]byte) ([]*rtp.Packet, error)
}

type encM struct{ e multiEnc }

func (w encM) Encode(f Frame) ([]*rtp.Packet, error) { return w.e.Encode(f) }

type encS struct{ e singleEnc }

func (w encS) Encode(f Frame) ([]*rtp.Packet, error) {
	if len(f) != 1 {
		return nil, fmt.Errorf("codecs: format takes exactly 1 unit, got %d", len(f))
	}
	return w.e.Encode(f[0])
}

type encSimple struct{ e *rtpsimpleaudio.Encoder }

func (w encSimple) Encode(f Frame) ([]*rtp.Packet, error) {
	if len(f) != 1 {
		return nil, fmt.Errorf("codecs: format takes exactly 1 unit, got %d", len(f))
	}
	pkt, err := w.e.Encode(f[0])
	if err != nil {
		return nil, err
	}
	return []*rtp.Packet{pkt}, nil
}

func newEncM(e multiEnc) (Encoder, error) {
	if err := e.Init(); err != nil {
		return nil, err
	}
	return encM{e}, nil
}

func newEncS(e singleEnc) (Encoder, error) {
	if err := e.Init(); err != nil {
		return nil, err
	}
	return encS{e}, nil
}

type multiDec interface {
	initer
	Decode(*rtp.Packet) ([][]byte, error)
}

type singleDec interface {
	initer
	Decode(*rtp.Packet) ([]byte, error)
}

type decM struct{ d multiDec }

func (w decM) Decode(pkt *rtp.Packet) (Frame, error) { return w.d.Decode(pkt) }
func (w decM) Raw() any                              { return w.d }

type decS struct{ d singleDec }

func (w decS) Decode(pkt *rtp.Packet) (Frame, error) {
	b, err := w.d.Decode(pkt)
	if err != nil {
		return nil, err
	}
	return Frame{b}, nil
}
func (w decS) Raw() any { return w.d }

// --- errors ---

var errsMore = []error{
	rtph264.ErrMorePacketsNeeded, rtph265.ErrMorePacketsNeeded, rtpav1.ErrMorePacketsNeeded,
	rtpvp8.ErrMorePacketsNeeded, rtpvp9.ErrMorePacketsNeeded, rtpmpeg4audio.ErrMorePacketsNeeded,
	rtpfragmented.ErrMorePacketsNeeded, rtpmpeg1audio.ErrMorePacketsNeeded,
	rtpmpeg1video.ErrMorePacketsNeeded, rtpmjpeg.ErrMorePacketsNeeded, rtpac3.ErrMorePacketsNeeded,
	rtpklv.ErrMorePacketsNeeded,
}

// rtpmpeg4audio and rtpfragmented have no ErrNonStartingPacketAndNoPrevious;
// rtplpcm, rtpsimpleaudio and rtpmpegts have neither error.
var errsNonStarting = []error{
	rtph264.ErrNonStartingPacketAndNoPrevious, rtph265.ErrNonStartingPacketAndNoPrevious,
	rtpav1.ErrNonStartingPacketAndNoPrevious, rtpvp8.ErrNonStartingPacketAndNoPrevious,
	rtpvp9.ErrNonStartingPacketAndNoPrevious, rtpmpeg1audio.ErrNonStartingPacketAndNoPrevious,
	rtpmpeg1video.ErrNonStartingPacketAndNoPrevious, rtpmjpeg.ErrNonStartingPacketAndNoPrevious,
	rtpac3.ErrNonStartingPacketAndNoPrevious, rtpklv.ErrNonStartingPacketAndNoPrevious,
}

func isAny(err error, set []error) bool {
	if err == nil {
		return false
	}
	for _, e := range set {
		if errors.Is(err, e) {
			return true
		}
	}
	return false
}

// IsMorePacketsNeeded is true for any package's ErrMorePacketsNeeded.
func IsMorePacketsNeeded(err error) bool { return isAny(err, errsMore) }

// IsNonStarting is true for any package's ErrNonStartingPacketAndNoPrevious.
func IsNonStarting(err error) bool { return isAny(err, errsNonStarting) }

// --- equality ---

func equalUnits(orig, got Frame) bool {
	if len(orig) != len(got) {
		return false
	}
	for i := range orig {
		if !bytes.Equal(orig[i], got[i]) {
			return false
		}
	}
	return true
}

// equalBytes ignores grouping (lpcm: the decoder returns one chunk per packet).
func equalBytes(orig, got Frame) bool {
	return bytes.Equal(bytes.Join(orig, nil), bytes.Join(got, nil))
}

// --- registry ---

const pt = 96 // dynamic payload type used where configurable

func mpeg4audioCodec(name string, sizeLen, indexLen, indexDeltaLen int) *Codec {
	hdr := 2 + (sizeLen+indexLen+7)/8 // AU-headers-length + one AU-header
	maxAU := 1<<sizeLen - 1
	return &Codec{
		Name: name, Fragments: true, Stateful: true, MultiUnit: true,
		// the decoder enforces MaxAccessUnitSize on fragmented AUs only
		MaxFrameSize: mpeg4audio.MaxAccessUnitSize,
		// hdr+1 is the true minimum; below it Encode panics (integer divide by zero)
		MinPayloadMax: hdr + 2, UnitAlign: 1, PayloadType: pt,
		NewEncoder: func(pms int, seq uint16, ssrc uint32) (Encoder, error) {
			return newEncM(&rtpmpeg4audio.Encoder{
				PayloadType: pt, SizeLength: sizeLen, IndexLength: indexLen, IndexDeltaLength: indexDeltaLen,
				SSRC: &ssrc, InitialSequenceNumber: &seq, PayloadMaxSize: pms,
			})
		},
		NewDecoder: func() (Decoder, error) {
			d := &rtpmpeg4audio.Decoder{SizeLength: sizeLen, IndexLength: indexLen, IndexDeltaLength: indexDeltaLen}
			return decM{d}, d.Init()
		},
		GenFrame:    func(rng *rand.Rand, sz []int) Frame { return genEach(rng, sz, 1, maxAU, genMPEG4AudioAU) },
		Equal:       equalUnits,
		MinUnitSize: 1, MaxUnitSize: maxAU, Exact: true,
	}
}

func lpcmCodec(name string, bitDepth, channels int) *Codec {
	align := bitDepth / 8 * channels
	return &Codec{
		Name: name, Fragments: true,
		// PayloadMaxSize < sample size makes Init compute maxPayloadSize 0 and
		// Encode divide by zero
		MinPayloadMax: align, UnitAlign: align, PayloadType: pt,
		NewEncoder: func(pms int, seq uint16, ssrc uint32) (Encoder, error) {
			return newEncS(&rtplpcm.Encoder{
				PayloadType: pt, BitDepth: bitDepth, ChannelCount: channels,
				SSRC: &ssrc, InitialSequenceNumber: &seq, PayloadMaxSize: pms,
			})
		},
		NewDecoder: func() (Decoder, error) {
			d := &rtplpcm.Decoder{BitDepth: bitDepth, ChannelCount: channels}
			return decS{d}, d.Init()
		},
		// size rounded DOWN to a whole number of samples, at least one sample
		GenFrame: func(rng *rand.Rand, sz []int) Frame {
			n := max(first(sz)/align, 1) * align
			return Frame{randBytes(rng, n)}
		},
		Equal:       equalBytes,
		MinUnitSize: align, Exact: true,
	}
}

var all = []*Codec{
	{
		Name: "h264", Video: true, Fragments: true, FrameMode: true, Stateful: true, MultiUnit: true,
		MaxFrameSize: h264.MaxAccessUnitSize, MaxUnits: h264.MaxNALUsPerAccessUnit,
		// 3 is the true minimum (FU-A: 2 header bytes + 1); below it Encode panics
		// (integer divide by zero in packetCount)
		MinPayloadMax: 4, UnitAlign: 1, PayloadType: pt,
		NewEncoder: func(pms int, seq uint16, ssrc uint32) (Encoder, error) {
			return newEncM(&rtph264.Encoder{
				PayloadType: pt, PacketizationMode: 1,
				SSRC: &ssrc, InitialSequenceNumber: &seq, PayloadMaxSize: pms,
			})
		},
		NewDecoder: func() (Decoder, error) {
			d := &rtph264.Decoder{PacketizationMode: 1}
			return decM{d}, d.Init()
		},
		GenFrame: genH264, Equal: equalUnits, MinUnitSize: 1, Exact: true,
	},
	{
		Name: "h265", Video: true, Fragments: true, FrameMode: true, Stateful: true, MultiUnit: true,
		MaxFrameSize: h265.MaxAccessUnitSize, MaxUnits: h265.MaxNALUsPerAccessUnit,
		// 4 is the true minimum (FU: 3 header bytes + 1); below it Encode panics
		// (integer divide by zero)
		MinPayloadMax: 5, UnitAlign: 1, PayloadType: pt,
		NewEncoder: func(pms int, seq uint16, ssrc uint32) (Encoder, error) {
			return newEncM(&rtph265.Encoder{
				PayloadType: pt, SSRC: &ssrc, InitialSequenceNumber: &seq, PayloadMaxSize: pms,
			})
		},
		NewDecoder: func() (Decoder, error) {
			d := &rtph265.Decoder{}
			return decM{d}, d.Init()
		},
		GenFrame: genH265, Equal: equalUnits, MinUnitSize: 2, Exact: true,
	},
	{
		Name: "av1", Video: true, Fragments: true, FrameMode: true, Stateful: true, MultiUnit: true,
		MaxFrameSize: av1.MaxTemporalUnitSize, MaxUnits: av1.MaxOBUsPerTemporalUnit,
		// 3 is the true minimum (aggregation header + LEB128 + 1); with 2 and a TU
		// of >= 2 OBUs the encoder loops forever creating empty packets (by code
		// reading, not run). (The boundary defect av1BoundaryDefect describes was repaired in the
		// repository - "fix: rtpav1 encoder flags an OBU as fragmented only when ..." - so it is no
		// longer predicted.)
		MinPayloadMax: 4, UnitAlign: 1, PayloadType: pt,
		NewEncoder: func(pms int, seq uint16, ssrc uint32) (Encoder, error) {
			return newEncM(&rtpav1.Encoder{
				PayloadType: pt, SSRC: &ssrc, InitialSequenceNumber: &seq, PayloadMaxSize: pms,
			})
		},
		NewDecoder: func() (Decoder, error) {
			d := &rtpav1.Decoder{}
			return decM{d}, d.Init()
		},
		GenFrame: genAV1, Equal: equalUnits, MinUnitSize: 1, Exact: true,
	},
	{
		Name: "vp8", Video: true, Fragments: true, FrameMode: true, Stateful: true,
		MaxFrameSize: vp8.MaxFrameSize,
		// 1-byte payload descriptor + 1; with 1 pion's payloader returns nil and
		// Encode panics("should not happen"). PayloadMaxSize is cast to uint16.
		MinPayloadMax: 2, UnitAlign: 1, PayloadType: pt,
		NewEncoder: func(pms int, seq uint16, ssrc uint32) (Encoder, error) {
			return newEncS(&rtpvp8.Encoder{
				PayloadType: pt, SSRC: &ssrc, InitialSequenceNumber: &seq, PayloadMaxSize: pms,
			})
		},
		NewDecoder: func() (Decoder, error) {
			d := &rtpvp8.Decoder{}
			return decS{d}, d.Init()
		},
		GenFrame: genVP8, Equal: equalUnits, MinUnitSize: 1, Exact: true,
	},
	{
		Name: "vp9", Video: true, Fragments: true, FrameMode: true, Stateful: true,
		MaxFrameSize: vp9.MaxFrameSize,
		// key frames carry a 3+8 byte descriptor in their first packet; below 12
		// pion's payloader returns an empty list and Encode returns 0 packets, nil
		MinPayloadMax: 12, UnitAlign: 1, PayloadType: pt,
		NewEncoder: func(pms int, seq uint16, ssrc uint32) (Encoder, error) {
			pid := uint16(ssrc)
			return newEncS(&rtpvp9.Encoder{
				PayloadType: pt, SSRC: &ssrc, InitialSequenceNumber: &seq, PayloadMaxSize: pms,
				InitialPictureID: &pid,
			})
		},
		NewDecoder: func() (Decoder, error) {
			d := &rtpvp9.Decoder{}
			return decS{d}, d.Init()
		},
		GenFrame: genVP9, Equal: equalUnits, MinUnitSize: 1, Exact: true,
	},
	mpeg4audioCodec("mpeg4audio", 13, 3, 3),
	mpeg4audioCodec("mpeg4audio-6-2", 6, 2, 2),
	// what an SDP with sizelength=13;indexlength=3 and no indexdeltalength gives: the headers
	// after the first one are shorter than the first
	mpeg4audioCodec("mpeg4audio-13-3-0", 13, 3, 0),
	// ... and longer than the first (legal as well: the lengths are independent parameters)
	mpeg4audioCodec("mpeg4audio-6-2-4", 6, 2, 4),
	{
		Name: "fragmented", Video: true, Fragments: true, FrameMode: true, Stateful: true,
		MaxFrameSize:  mpeg4video.MaxFrameSize,
		MinPayloadMax: 1, UnitAlign: 1, PayloadType: pt, // no payload header at all
		NewEncoder: func(pms int, seq uint16, ssrc uint32) (Encoder, error) {
			return newEncS(&rtpfragmented.Encoder{
				PayloadType: pt, SSRC: &ssrc, InitialSequenceNumber: &seq, PayloadMaxSize: pms,
			})
		},
		NewDecoder: func() (Decoder, error) {
			d := &rtpfragmented.Decoder{}
			return decS{d}, d.Init()
		},
		// arbitrary non-empty bytes
		GenFrame: func(rng *rand.Rand, sz []int) Frame { return Frame{randBytes(rng, max(first(sz), 1))} },
		Equal:    equalUnits, MinUnitSize: 1, Exact: true,
	},
	{
		Name: "mpeg1audio", Fragments: true, Stateful: true, MultiUnit: true,
		// 4-byte RFC 2250 header + the 5 bytes FrameHeader.Unmarshal wants in the
		// first fragment = 9 is the true minimum; below it the DECODER rejects the
		// first fragment ("not enough bytes")
		MinPayloadMax: 12, UnitAlign: 1, PayloadType: 14,
		NewEncoder: func(pms int, seq uint16, ssrc uint32) (Encoder, error) {
			return newEncM(&rtpmpeg1audio.Encoder{SSRC: &ssrc, InitialSequenceNumber: &seq, PayloadMaxSize: pms})
		},
		NewDecoder: func() (Decoder, error) {
			d := &rtpmpeg1audio.Decoder{}
			return decM{d}, d.Init()
		},
		GenFrame: func(rng *rand.Rand, sz []int) Frame { return genEach(rng, sz, 0, 0, genMPEG1AudioFrame) },
		Equal:    equalUnits, MinUnitSize: 48, MaxUnitSize: 1729,
	},
	{
		Name: "mpeg1video", Video: true, Fragments: true, FrameMode: true, Stateful: true,
		MaxFrameSize: 1 << 20, // rtpmpeg1video.maxFrameSize (unexported)
		// 4-byte RFC 2250 header + 1 = 5 is the true minimum; below it Encode
		// panics (integer divide by zero)
		MinPayloadMax: 8, UnitAlign: 1, PayloadType: 32,
		NewEncoder: func(pms int, seq uint16, ssrc uint32) (Encoder, error) {
			return newEncS(&rtpmpeg1video.Encoder{SSRC: &ssrc, InitialSequenceNumber: &seq, PayloadMaxSize: pms})
		},
		NewDecoder: func() (Decoder, error) {
			d := &rtpmpeg1video.Decoder{}
			return decS{d}, d.Init()
		},
		GenFrame: genMPEG1Video, Equal: equalUnits, MinUnitSize: mpeg1VideoMin, Exact: true,
	},
	{
		Name: "mjpeg", Video: true, Fragments: true, FrameMode: true, Stateful: true,
		// main header 8 + quantization header 4 + 2*64 table bytes = 140 in the
		// first packet, so 141 is the true minimum; with 140 the first packet
		// carries no data and the second one is again at offset 0 but without
		// tables (the decoder misparses it); below 140 Encode slices with a negative
		// bound (by code reading)
		MinPayloadMax: 144, UnitAlign: 1, PayloadType: 26,
		NewEncoder: func(pms int, seq uint16, ssrc uint32) (Encoder, error) {
			return newEncS(&rtpmjpeg.Encoder{SSRC: &ssrc, InitialSequenceNumber: &seq, PayloadMaxSize: pms})
		},
		NewDecoder: func() (Decoder, error) {
			d := &rtpmjpeg.Decoder{}
			return decS{d}, d.Init()
		},
		// sizes refer to the entropy-coded data, which is exact; the unit is
		// about mjpegOverhead bytes longer
		GenFrame: genMJPEG, Equal: equalMJPEG, MinUnitSize: 1,
	},
	{
		Name: "ac3", Fragments: true, Stateful: true, MultiUnit: true,
		// the fragmenter reserves 4 bytes (although the header is 2) and
		// SyncInfo.Unmarshal wants 5 bytes in the first fragment: 9 is the true
		// minimum; below it the DECODER rejects the first fragment
		MinPayloadMax: 12, UnitAlign: 1, PayloadType: pt,
		NewEncoder: func(pms int, seq uint16, ssrc uint32) (Encoder, error) {
			return newEncM(&rtpac3.Encoder{
				PayloadType: pt, SSRC: &ssrc, InitialSequenceNumber: &seq, PayloadMaxSize: pms,
			})
		},
		NewDecoder: func() (Decoder, error) {
			d := &rtpac3.Decoder{}
			return decM{d}, d.Init()
		},
		GenFrame: func(rng *rand.Rand, sz []int) Frame { return genEach(rng, sz, 0, 0, genAC3Frame) },
		Equal:    equalUnits, MinUnitSize: 128, MaxUnitSize: 3840,
	},
	lpcmCodec("lpcm", 16, 2),
	lpcmCodec("lpcm-24-1", 24, 1),
	{
		// single packet per frame; PayloadMaxSize is accepted but never used by
		// Encode, so the caller must keep frames <= payload max
		Name: "simpleaudio", MinPayloadMax: 1, UnitAlign: 1, PayloadType: pt,
		NewEncoder: func(pms int, seq uint16, ssrc uint32) (Encoder, error) {
			e := &rtpsimpleaudio.Encoder{PayloadType: pt, SSRC: &ssrc, InitialSequenceNumber: &seq, PayloadMaxSize: pms}
			return encSimple{e}, e.Init()
		},
		NewDecoder: func() (Decoder, error) {
			d := &rtpsimpleaudio.Decoder{}
			return decS{d}, d.Init()
		},
		// arbitrary non-empty bytes
		GenFrame: func(rng *rand.Rand, sz []int) Frame { return Frame{randBytes(rng, max(first(sz), 1))} },
		Equal:    equalUnits, MinUnitSize: 1, Exact: true,
	},
	{
		Name: "mpegts", Fragments: true, MultiUnit: true,
		// PayloadMaxSize < 188 makes Encode divide by zero
		MinPayloadMax: 188, UnitAlign: 188, PayloadType: 33,
		NewEncoder: func(pms int, seq uint16, ssrc uint32) (Encoder, error) {
			return newEncM(&rtpmpegts.Encoder{SSRC: &ssrc, InitialSequenceNumber: &seq, PayloadMaxSize: pms})
		},
		NewDecoder: func() (Decoder, error) {
			d := &rtpmpegts.Decoder{}
			return decM{d}, d.Init()
		},
		GenFrame: genMPEGTS, Equal: equalUnits, MinUnitSize: 188, MaxUnitSize: 188, Exact: true,
	},
	{
		Name: "klv", Fragments: true, FrameMode: true, Stateful: true,
		// no payload header at all, but the DECODER recognises the start of a unit
		// by the 4-byte key prefix 06 0e 2b 34: with less in the first packet every
		// packet is answered with ErrNonStartingPacketAndNoPrevious
		// 1 MiB: the decoder's maxUnitSize (unexported; added by the fix for unbounded accumulation)
		MaxFrameSize:  1 << 20,
		MinPayloadMax: 4, UnitAlign: 1, PayloadType: pt,
		NewEncoder: func(pms int, seq uint16, ssrc uint32) (Encoder, error) {
			return newEncS(&rtpklv.Encoder{
				PayloadType: pt, SSRC: &ssrc, InitialSequenceNumber: &seq, PayloadMaxSize: pms,
			})
		},
		NewDecoder: func() (Decoder, error) {
			d := &rtpklv.Decoder{}
			return decS{d}, d.Init()
		},
		GenFrame: genKLV, Equal: equalUnits, MinUnitSize: 18, Exact: true,
	},
}

// All returns every codec, in a fixed order.
func All() []*Codec { return all }

// ByName returns the codec with the given name, or nil.
func ByName(name string) *Codec {
	for _, c := range all {
		if c.Name == name {
			return c
		}
	}
	return nil
}
