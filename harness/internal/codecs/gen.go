package codecs

import (
	"bytes"
	"fmt"
	"image"
	"image/jpeg"
	"math/rand"

	"github.com/bluenviron/mediacommon/v2/pkg/codecs/ac3"
	"github.com/bluenviron/mediacommon/v2/pkg/codecs/av1"
	"github.com/bluenviron/mediacommon/v2/pkg/codecs/mpeg1audio"
)

// --- helpers ---

func first(sz []int) int {
	if len(sz) == 0 {
		return 0
	}
	return sz[0]
}

func randBytes(rng *rand.Rand, n int) []byte {
	b := make([]byte, n)
	rng.Read(b) // math/rand: deterministic, never fails
	return b
}

// genEach builds one unit per requested size, clamped to [lo, hi] (hi 0 = unbounded).
func genEach(rng *rand.Rand, sz []int, lo, hi int, gen func(*rand.Rand, int) []byte) Frame {
	if len(sz) == 0 {
		sz = []int{0}
	}
	f := make(Frame, len(sz))
	for i, n := range sz {
		n = max(n, lo)
		if hi > 0 {
			n = min(n, hi)
		}
		f[i] = gen(rng, n)
	}
	return f
}

// escapeNAL enforces on b what emulation prevention guarantees for every real
// H264/H265 NAL unit: no 00 00 0x (x <= 3) anywhere, and a non-zero last byte
// (rbsp trailing bits). The decoders rely on it: a de-fragmented NAL unit is
// split at every 00 00 01 (splitNALUs), and the H264 decoder switches for good
// into Annex-B mode as soon as a lone NAL unit contains 00 00 00 01.
func escapeNAL(b []byte) {
	for i := 2; i < len(b); i++ {
		if b[i-2] == 0 && b[i-1] == 0 && b[i] <= 3 {
			b[i] |= 0x80
		}
	}
	if b[len(b)-1] == 0 {
		b[len(b)-1] = 0x80
	}
}

// --- H264 ---

// genH264 builds an access unit. Rules:
//   - a NAL unit is >= 1 byte; byte 0 is forbidden_zero_bit(0) nal_ref_idc(2) type(5);
//   - the type is never 24..29 (STAP-A/B, MTAP16/24, FU-A/B: reserved by RFC 6184)
//     nor 0/30/31: slices are 1 (non-IDR) or 5 (IDR, nal_ref_idc != 0), all of the
//     same kind in one AU; an IDR AU of >= 3 units starts with SPS (7) and PPS (8);
//   - the only legal 1-byte NAL units are end-of-sequence (10) and end-of-stream
//     (11), nal_ref_idc 0: they are used for size 1;
//   - escapeNAL: no start codes / Annex-B prefixes anywhere.
//
// The decoder also limits an AU to h264.MaxNALUsPerAccessUnit units (Codec.MaxUnits).
func genH264(rng *rand.Rand, sz []int) Frame {
	idr := rng.Intn(2) == 0
	nri := byte(rng.Intn(4))
	if idr && nri == 0 {
		nri = 3
	}
	return genEachIdx(rng, sz, 1, func(i, n int, b []byte) {
		switch {
		case n == 1:
			b[0] = 10 + byte(rng.Intn(2))
		case idr && len(sz) >= 3 && i < 2:
			b[0] = 3<<5 | byte(7+i)
		case idr:
			b[0] = nri<<5 | 5
		default:
			b[0] = nri<<5 | 1
		}
		escapeNAL(b)
	})
}

// genEachIdx allocates one random unit per size (at least lo bytes) and lets
// fix patch it.
func genEachIdx(rng *rand.Rand, sz []int, lo int, fix func(i, n int, b []byte)) Frame {
	if len(sz) == 0 {
		sz = []int{0}
	}
	f := make(Frame, len(sz))
	for i, n := range sz {
		n = max(n, lo)
		f[i] = randBytes(rng, n)
		fix(i, n, f[i])
	}
	return f
}

// --- H265 ---

// genH265 builds an access unit. Rules:
//   - a NAL unit is >= 2 bytes: forbidden_zero_bit(0) type(6) nuh_layer_id(6, here 0)
//     nuh_temporal_id_plus1(3, never 0). The AP packer rejects shorter units;
//   - the type is never 48 (AP), 49 (FU), 50 (PACI) (reserved by RFC 7798) nor
//     another unspecified/reserved value: slices are TRAIL_R (1) or IDR_W_RADL
//     (19, TemporalId 0), all of the same kind in one AU; an IDR AU of >= 4 units
//     starts with VPS (32), SPS (33), PPS (34);
//   - the only legal 2-byte NAL units are EOS_NUT (36) and EOB_NUT (37): they are
//     used for size 2;
//   - escapeNAL: no start codes anywhere.
//
// The decoder also limits an AU to h265.MaxNALUsPerAccessUnit units (Codec.MaxUnits).
func genH265(rng *rand.Rand, sz []int) Frame {
	idr := rng.Intn(2) == 0
	tidPlus1 := byte(1 + rng.Intn(3))
	return genEachIdx(rng, sz, 2, func(i, n int, b []byte) {
		typ, tid := byte(1), tidPlus1
		switch {
		case n == 2:
			typ, tid = 36+byte(rng.Intn(2)), 1
		case idr && len(sz) >= 4 && i < 3:
			typ, tid = byte(32+i), 1
		case idr:
			typ, tid = 19, 1
		}
		b[0], b[1] = typ<<1, tid
		escapeNAL(b)
	})
}

// --- AV1 ---

// genAV1 builds a temporal unit. Rules (AV1 RTP payload spec v1.0, section 5):
//   - an OBU is >= 1 byte; byte 0 is forbidden(0) type(4) extension_flag(0)
//     has_size_field(0) reserved(0). has_size_field SHOULD be 0 on the wire and
//     mediacommon's OBUHeader rejects extension_flag = 1;
//   - temporal delimiters (2) and tile lists (8) MUST NOT be sent, reserved types
//     are not used: the first OBU of a "key" TU of >= 2 OBUs is a sequence header
//     (1, which makes the encoder set the N bit), the others are frame (6), frame
//     header (3), tile group (4) or metadata (5).
//
// The decoder also limits a TU to av1.MaxOBUsPerTemporalUnit OBUs (Codec.MaxUnits).
func genAV1(rng *rand.Rand, sz []int) Frame {
	key := rng.Intn(2) == 0
	return genEachIdx(rng, sz, 1, func(i, _ int, b []byte) {
		typ := []byte{6, 6, 3, 4, 5}[rng.Intn(5)]
		if key && len(sz) >= 2 && i == 0 {
			typ = 1
		}
		b[0] = typ << 3
	})
}

// av1BoundaryDefect replays the packing loop of rtpav1.Encoder.Encode and
// reports the inputs on which it goes wrong: when an OBU that is not the first
// element of its packet meets avail <= LEB128size(PayloadMaxSize) (or avail == 0
// for the size-less last OBU), the encoder puts nothing of it in the packet but
// still sets Y=1 on that packet and Z=1 on the next one; the decoder then glues
// the previous, complete OBU to the new one.
func av1BoundaryDefect(pms int, f Frame) string {
	if pms == 0 {
		pms = 1450
	}
	lebMax := av1.LEB128(pms).MarshalSize()
	used, inPkt := 1, 0 // payload bytes and size-prefixed OBUs in the current packet
	for i, obu := range f {
		rem := len(obu)
		for {
			avail := pms - used
			omit := i == len(f)-1 && inPkt < 3
			needed := rem
			if !omit {
				needed += av1.LEB128(rem).MarshalSize()
			}
			if needed <= avail {
				used += needed
				if !omit {
					inPkt++
				}
				break
			}
			switch {
			case omit && avail > 0:
				rem -= avail
			case !omit && avail > lebMax:
				rem -= avail - lebMax
			default:
				return fmt.Sprintf("rtpav1 encoder: OBU %d/%d (%d bytes) starts with %d bytes left "+
					"in a packet that already holds %d payload bytes (PayloadMaxSize %d): spurious Y/Z flags",
					i+1, len(f), len(obu), avail, used, pms)
			}
			used, inPkt = 1, 0
		}
	}
	return ""
}

// --- VP8 ---

// genVP8: neither pion's payloader nor the decoder look into the frame, any
// non-empty byte string round-trips. For plausibility a key frame (bit 0 of the
// frame tag clear) of >= 10 bytes gets its start code 9d 01 2a.
func genVP8(rng *rand.Rand, sz []int) Frame {
	b := randBytes(rng, max(first(sz), 1))
	if len(b) >= 10 && b[0]&1 == 0 {
		copy(b[3:], []byte{0x9d, 0x01, 0x2a})
	}
	return Frame{b}
}

// --- VP9 ---

// genVP9: pion's VP9 payloader (non-flexible mode) parses the uncompressed
// header and returns NO packets when that fails, so the frame must start with a
// parsable header:
//   - key frame (>= 9 bytes, header modelled on the rtpvp9 test vector 82 49 83 42
//     00 77 f0 32 34): frame_marker 2, profile 0, show_existing_frame 0,
//     frame_type 0, show_frame 1, error_res 0, sync code 49 83 42, color config
//     (4 bits, 0), 16-bit width-1 and height-1 (random, <= 4096);
//   - non-key frame (any size >= 1): first byte 100001xx (frame_marker 2, profile 0,
//     show_existing_frame 0, frame_type 1), the parser needs nothing more.
func genVP9(rng *rand.Rand, sz []int) Frame {
	b := randBytes(rng, max(first(sz), 1))
	if len(b) >= 9 && rng.Intn(2) == 0 {
		w, h := rng.Intn(4096), rng.Intn(4096) // minus 1
		copy(b, []byte{
			0x82, 0x49, 0x83, 0x42, byte(w >> 12), byte(w >> 4),
			byte(w<<4) | byte(h>>12), byte(h >> 4), byte(h<<4) | b[8]&0x0f,
		})
	} else {
		b[0] = 0x84 | b[0]&3
	}
	return Frame{b}
}

// --- MPEG-4 audio (RFC 3640) ---

// genMPEG4AudioAU: an AU is 1..2^SizeLength-1 bytes (the size must fit the
// AU-header, 0 is rejected by the decoder) of arbitrary content, except that it
// must not begin with the ADTS sync word fff: the decoder tries to strip an ADTS
// header from the first AU it sees (removeADTS) and, when that works, from all
// the following ones. The first byte is therefore never ff.
func genMPEG4AudioAU(rng *rand.Rand, n int) []byte {
	b := randBytes(rng, n)
	if b[0] == 0xff {
		b[0] = 0xfe
	}
	return b
}

// --- MPEG-1/2 audio ---

type sizedHeader struct {
	hdr []byte
	n   int
}

// closest picks, among cands, a header whose frame size is nearest to n (ties
// broken by rng).
func closest(rng *rand.Rand, cands []sizedHeader, n int) sizedHeader {
	var best []sizedHeader
	bd := -1
	for _, c := range cands {
		d := abs(c.n - n)
		if bd < 0 || d < bd {
			best, bd = best[:0], d
		}
		if d == bd {
			best = append(best, c)
		}
	}
	return best[rng.Intn(len(best))]
}

func abs(v int) int {
	if v < 0 {
		return -v
	}
	return v
}

// mpeg1AudioHeaders lists every frame header accepted by mediacommon's
// mpeg1audio.FrameHeader with its frame length (as computed by the library):
// MPEG-1 layers II/III and MPEG-2 layer II, bitrate index 1..14, sample rate
// index 0..2, padding 0/1; protection_bit 1 (no CRC).
// MPEG-2 layer III is left out on purpose: its real frame length is
// 72*bitrate/samplerate, FrameHeader.FrameLen() uses 144 for every layer, so
// real frames and the library disagree there.
var mpeg1AudioHeaders = func() []sizedHeader {
	var ret []sizedHeader
	for _, vl := range [][2]byte{{1, 2}, {1, 3}, {0, 2}} { // {MPEG-1 bit, layer}
		for br := byte(1); br <= 14; br++ {
			for sr := byte(0); sr <= 2; sr++ {
				for pad := byte(0); pad <= 1; pad++ {
					hdr := []byte{0xff, 0xf0 | vl[0]<<3 | (4-vl[1])<<1 | 1, br<<4 | sr<<2 | pad<<1, 0, 0}
					var h mpeg1audio.FrameHeader
					if err := h.Unmarshal(hdr); err != nil {
						panic(err)
					}
					ret = append(ret, sizedHeader{hdr[:3], h.FrameLen()})
				}
			}
		}
	}
	return ret
}()

// genMPEG1AudioFrame: a frame must start with a parsable 4-byte header (sync
// fff, layer II or III, valid bitrate/sample-rate index) whose computed frame
// length equals the unit length, both in the encoder (timestamps) and in the
// decoder (frame delimitation), so only the sizes of mpeg1AudioHeaders exist
// (48..1729): the nearest one is used. Byte 3: MPEG-1 layer II allows 32/48/56/80
// kbit/s in mono only and >= 224 kbit/s in non-mono only; emphasis 2 is reserved.
// The body is random: the decoder walks from frame to frame by length, it never
// scans for sync words.
func genMPEG1AudioFrame(rng *rand.Rand, n int) []byte {
	c := closest(rng, mpeg1AudioHeaders, n)
	b := randBytes(rng, c.n)
	copy(b, c.hdr)
	mode := b[3] >> 6
	if c.hdr[1] == 0xfd { // MPEG-1 layer II
		switch br := c.hdr[2] >> 4; {
		case br == 1 || br == 2 || br == 3 || br == 5:
			mode = 3
		case br >= 11 && mode == 3:
			mode = 0
		}
	}
	b[3] = mode<<6 | b[3]&0x3c
	return b
}

// --- AC-3 ---

var ac3Headers = func() []sizedHeader {
	var ret []sizedHeader
	for fscod := uint8(0); fscod < 3; fscod++ {
		for code := uint8(0); code < 38; code++ {
			ret = append(ret, sizedHeader{[]byte{fscod<<6 | code}, ac3.SyncInfo{Fscod: fscod, Frmsizecod: code}.FrameSize()})
		}
	}
	return ret
}()

// genAC3Frame: a sync frame starts with 0b 77, crc1 (2 bytes), fscod(2, != 3)
// frmsizecod(6, < 38), and its length must equal the frame size table entry
// (ATSC A/52 table 5.18, 128..3840 bytes): the nearest one is used. Then bsid 8
// and a random bsmod; the rest is random (the decoder walks by length).
func genAC3Frame(rng *rand.Rand, n int) []byte {
	c := closest(rng, ac3Headers, n)
	b := randBytes(rng, c.n)
	b[0], b[1], b[4], b[5] = 0x0b, 0x77, c.hdr[0], 8<<3|b[5]&7
	return b
}

// --- MPEG-1/2 video ---

// mpeg1VideoMin is a picture header (8 bytes) plus one minimal slice (5 bytes).
const mpeg1VideoMin = 13

// genMPEG1Video builds one coded picture of exactly the requested size (>= 13).
// The encoder cuts the frame at every 00 00 01 (each piece must be >= 4 bytes,
// and >= 6 for a picture start code, whose temporal_reference and
// picture_coding_type it copies into the RFC 2250 header; a GOP start code sets
// the "begin of sequence" bit). Layout:
//
//	[sequence header 00 00 01 b3 + 8 bytes, GOP header 00 00 01 b8 + 4 bytes]  (sometimes, if room)
//	picture header 00 00 01 00 + temporal_reference(10) type(3: I or P) vbv_delay(16, ffff) [f_code] 0-padding
//	slices 00 00 01 <01..af> + quantiser_scale(5, != 0) + random data
//
// Random data never contains two consecutive zero bytes (so no start code, and
// no run of 23 zero bits) and every slice ends with a non-zero byte.
func genMPEG1Video(rng *rand.Rand, sz []int) Frame {
	n := max(first(sz), mpeg1VideoMin)
	b := make([]byte, 0, n)
	if n >= 64 && rng.Intn(4) == 0 {
		// 352x288, aspect 1, 25 fps, bitrate 3ffff (variable), vbv 20, no matrices
		b = append(b, 0, 0, 1, 0xb3, 0x16, 0x01, 0x20, 0x13, 0xff, 0xff, 0xe0, 0xa0)
		// time code 0:00:00.00, closed_gop
		b = append(b, 0, 0, 1, 0xb8, 0x00, 0x08, 0x00, 0x40)
	}
	tr := rng.Intn(1024)
	if n-len(b) >= mpeg1VideoMin+1 && rng.Intn(2) == 0 { // P picture, forward_f_code odd
		f := byte(1 + 2*rng.Intn(4))
		b = append(b, 0, 0, 1, 0, byte(tr>>2), byte(tr<<6)|2<<3|7, 0xff, 0xf8|f>>1, f<<7)
	} else { // I picture
		b = append(b, 0, 0, 1, 0, byte(tr>>2), byte(tr<<6)|1<<3|7, 0xff, 0xf8)
	}
	oneSlice := len(sz) == 2 && sz[1] == 1 // (n, 1): everything after the picture header is ONE slice
	for vpos := byte(1); len(b) < n; vpos++ {
		l := n - len(b) // whole rest, unless two slices of >= 5 bytes fit
		if l >= 10 && vpos < 0xaf && !oneSlice {
			l = 5 + rng.Intn(min(l-9, 400))
		}
		s := randBytes(rng, l)
		copy(s, []byte{0, 0, 1, vpos})
		s[4] |= 0x08
		for i := 5; i < l; i++ {
			if s[i] == 0 && s[i-1] == 0 {
				s[i] = 0x80
			}
		}
		if s[l-1] == 0 {
			s[l-1] = 0x80
		}
		b = append(b, s...)
	}
	return Frame{b}
}

// --- M-JPEG ---

// stdDHT holds the DHT segment(s) with the four standard Huffman tables, taken
// from a picture produced by image/jpeg (which always uses them).
var stdDHT = func() []byte {
	var buf bytes.Buffer
	if err := jpeg.Encode(&buf, image.NewYCbCr(image.Rect(0, 0, 16, 16), image.YCbCrSubsampleRatio420), nil); err != nil {
		panic(err)
	}
	var ret []byte
	for b := buf.Bytes()[2:]; len(b) >= 4 && b[1] != 0xda; {
		l := 2 + (int(b[2])<<8 | int(b[3]))
		if b[1] == 0xc4 {
			ret = append(ret, b[:l]...)
		}
		b = b[l:]
	}
	if len(ret) < 4*(1+16+12) {
		panic("no DHT found")
	}
	return ret
}()

// mjpegOverhead is the size of everything but the entropy-coded data in a frame
// of genMJPEG with two quantization tables.
var mjpegOverhead = 2 + 18 + 2*69 + 19 + len(stdDHT) + 14 + 2

// genMJPEG builds a baseline JPEG acceptable to the RFC 2435 encoder:
//
//	SOI, APP0 (JFIF), 1 or 2 DQT segments (8-bit precision, ids 0.., values 1..255),
//	SOF0 (8-bit, 3 components, Y sampling 2x1 (type 0) or 2x2 (type 1), Cb/Cr 1x1,
//	width and height multiples of 16 in 16..2032: RTP/JPEG stores them /8 in one
//	byte), DHT (standard tables), SOS (3 components, 12 bytes), entropy-coded data
//	(random, ff always followed by the stuffing byte 00), EOI.
//
// unitSizes[0] is the EXACT size of the entropy-coded data (>= 1); the frame is
// about mjpegOverhead bytes longer. No DRI segment is ever produced: the encoder
// would emit type+64 packets, which the decoder rejects ("type not supported").
// Segments other than APP0-2/DQT/DHT/COM/DRI/SOF0/SOS are not understood by the
// encoder (it does not skip them properly) and are never produced.
func genMJPEG(rng *rand.Rand, sz []int) Frame {
	nq := 1 + rng.Intn(2)
	w, h := 16*(1+rng.Intn(127)), 16*(1+rng.Intn(127))
	samp := byte(0x21 + rng.Intn(2))
	b := []byte{0xff, 0xd8, 0xff, 0xe0, 0, 16, 'J', 'F', 'I', 'F', 0, 1, 1, 0, 0, 1, 0, 1, 0, 0}
	for id := 0; id < nq; id++ {
		b = append(b, 0xff, 0xdb, 0, 67, byte(id))
		for _, v := range randBytes(rng, 64) {
			b = append(b, max(v, 1))
		}
	}
	cq := byte(nq - 1) // chroma table
	b = append(b, 0xff, 0xc0, 0, 17, 8, byte(h>>8), byte(h), byte(w>>8), byte(w), 3,
		1, samp, 0, 2, 0x11, cq, 3, 0x11, cq)
	b = append(b, stdDHT...)
	b = append(b, 0xff, 0xda, 0, 12, 3, 1, 0x00, 2, 0x11, 3, 0x11, 0, 63, 0)
	d := randBytes(rng, max(first(sz), 1))
	for i := range d {
		if i > 0 && d[i-1] == 0xff {
			d[i] = 0
		} else if d[i] == 0xff && i == len(d)-1 {
			d[i] = 0xfe
		}
	}
	b = append(b, d...)
	return Frame{append(b, 0xff, 0xd9)}
}

type jpegInfo struct {
	w, h int
	samp byte
	qt   [][]byte // by increasing id
	data []byte   // entropy-coded data, without EOI
}

func parseJPEG(b []byte) (*jpegInfo, bool) {
	if len(b) < 4 || b[0] != 0xff || b[1] != 0xd8 {
		return nil, false
	}
	var ji jpegInfo
	qt := map[byte][]byte{}
	for b = b[2:]; ; {
		if len(b) < 4 || b[0] != 0xff {
			return nil, false
		}
		l := 2 + (int(b[2])<<8 | int(b[3]))
		if l < 4 || l > len(b) {
			return nil, false
		}
		seg := b[4:l]
		switch b[1] {
		case 0xdb:
			for ; len(seg) >= 65; seg = seg[65:] {
				qt[seg[0]] = seg[1:65]
			}
		case 0xc0:
			if len(seg) < 8 {
				return nil, false
			}
			ji.h, ji.w, ji.samp = int(seg[1])<<8|int(seg[2]), int(seg[3])<<8|int(seg[4]), seg[7]
		case 0xda:
			for id := 0; id < 16; id++ {
				if t, ok := qt[byte(id)]; ok {
					ji.qt = append(ji.qt, t)
				}
			}
			ji.data = bytes.TrimSuffix(b[l:], []byte{0xff, 0xd9})
			return &ji, true
		}
		b = b[l:]
	}
}

// equalMJPEG: the decoder rebuilds the JPEG headers, so compare what RTP/JPEG
// transports: width, height, sampling type, quantization tables, entropy data.
func equalMJPEG(orig, got Frame) bool {
	if len(orig) != 1 || len(got) != 1 {
		return false
	}
	a, ok1 := parseJPEG(orig[0])
	b, ok2 := parseJPEG(got[0])
	return ok1 && ok2 && a.w == b.w && a.h == b.h && a.samp == b.samp &&
		equalUnits(a.qt, b.qt) && bytes.Equal(a.data, b.data)
}

// --- MPEG-TS ---

// genMPEGTS: one 188-byte TS packet per entry of unitSizes (the sizes themselves
// are ignored). The decoder checks the length and the sync byte 47 of each
// packet. The rest of the header is kept sane: no transport error, no PUSI,
// random 13-bit PID, not scrambled, payload only, random continuity counter.
func genMPEGTS(rng *rand.Rand, sz []int) Frame {
	return genEachIdx(rng, make([]int, max(len(sz), 1)), 188, func(_, _ int, b []byte) {
		b[0], b[1], b[3] = 0x47, b[1]&0x1f, 0x10|b[3]&0x0f
	})
}

// --- KLV ---

// MISB ST 0601 UAS datalink local set key.
var klvKey = []byte{0x06, 0x0e, 0x2b, 0x34, 0x02, 0x0b, 0x01, 0x01, 0x0e, 0x01, 0x03, 0x01, 0x01, 0x00, 0x00, 0x00}

// genKLV builds a KLV unit made of ONE KLV item of exactly the requested total
// size (>= 18): 16-byte universal key (the decoder wants 06 0e 2b 34 at the
// start of a unit), BER length (short form below 128, else the shortest long
// form 81/82/... that makes the total fit; for a total of 145 that is the
// non-minimal but legal 81 7f), random value. Single-item units only: the
// decoder derives the unit size from the first item's length field and returns
// early when it is reached, so multi-item units are truncated when fragmented.
func genKLV(rng *rand.Rand, sz []int) Frame {
	n := max(first(sz), 18)
	l := 1 // size of the length field
	if n-17 > 127 {
		for l = 2; n-16-l >= 1<<(8*(l-1)); l++ {
		}
	}
	v := n - 16 - l
	b := append(make([]byte, 0, n), klvKey...)
	if l == 1 {
		b = append(b, byte(v))
	} else {
		b = append(b, 0x80|byte(l-1))
		for i := l - 2; i >= 0; i-- {
			b = append(b, byte(v>>(8*i)))
		}
	}
	return Frame{append(b, randBytes(rng, v)...)}
}
