// Package vt is the trace sink of the verification harness: one ndjson line per
// event, totally ordered by the order in which events take the sink's mutex.
// In-library hook events are emitted while the library lock protecting the state
// is held, so the file order is a valid linearization (DESIGN.md rule 4.3).
package vt

import (
	"bufio"
	"bytes"
	"encoding/json"
	"fmt"
	"os"
	"runtime"
	"strconv"
	"sync"
)

// Sink writes events.
type Sink struct {
	mu    sync.Mutex
	f     *os.File
	w     *bufio.Writer
	n     int // events written
	tid   int // current trace id
	Flush bool
}

// Open creates a sink writing to path.
func Open(path string) (*Sink, error) {
	f, err := os.Create(path)
	if err != nil {
		return nil, err
	}
	return &Sink{f: f, w: bufio.NewWriterSize(f, 1<<20)}, nil
}

// Close flushes and closes.
func (s *Sink) Close() error {
	s.mu.Lock()
	defer s.mu.Unlock()
	s.w.Flush()
	return s.f.Close()
}

// Count returns the number of events written.
func (s *Sink) Count() int {
	s.mu.Lock()
	defer s.mu.Unlock()
	return s.n
}

// Traces returns the number of traces started.
func (s *Sink) Traces() int {
	s.mu.Lock()
	defer s.mu.Unlock()
	return s.tid
}

func appendVal(b *bytes.Buffer, v any) {
	switch x := v.(type) {
	case string:
		b.WriteString(strconv.Quote(x))
	case int:
		b.WriteString(strconv.Itoa(x))
	case int64:
		b.WriteString(strconv.FormatInt(x, 10))
	case uint64:
		b.WriteString(strconv.FormatUint(x, 10))
	case uint32:
		b.WriteString(strconv.FormatUint(uint64(x), 10))
	case uint16:
		b.WriteString(strconv.FormatUint(uint64(x), 10))
	case uint8:
		b.WriteString(strconv.FormatUint(uint64(x), 10))
	case bool:
		if x {
			b.WriteString("true")
		} else {
			b.WriteString("false")
		}
	default:
		j, err := json.Marshal(v)
		if err != nil {
			panic(err)
		}
		b.Write(j)
	}
}

func (s *Sink) write(ev string, kv []any) {
	var b bytes.Buffer
	b.WriteString(`{"e":`)
	b.WriteString(strconv.Quote(ev))
	for i := 0; i+1 < len(kv); i += 2 {
		b.WriteByte(',')
		b.WriteString(strconv.Quote(kv[i].(string)))
		b.WriteByte(':')
		appendVal(&b, kv[i+1])
	}
	b.WriteString("}\n")
	s.w.Write(b.Bytes())
	s.n++
	if s.Flush {
		s.w.Flush()
	}
}

// Emit appends one event. kv are alternating keys and values. TLC reads JSON
// integers as 32-bit Int: callers must keep numbers below 2^31.
func (s *Sink) Emit(ev string, kv ...any) {
	s.mu.Lock()
	s.write(ev, kv)
	s.mu.Unlock()
}

// Reset starts a new trace: class is the scenario class used in known-finding
// keys, desc is the descriptor that reproduces the scenario (replay).
func (s *Sink) Reset(class, desc string, kv ...any) int {
	s.mu.Lock()
	defer s.mu.Unlock()
	s.tid++
	all := append([]any{"t", s.tid, "k", class, "desc", desc}, kv...)
	s.write("reset", all)
	return s.tid
}

// Goid returns the current goroutine id (used to attribute in-lock hook events
// to the API call in progress on the same goroutine).
func Goid() int64 {
	var buf [64]byte
	n := runtime.Stack(buf[:], false)
	// "goroutine 123 [running]:..."
	b := buf[10:n]
	i := bytes.IndexByte(b, ' ')
	id, err := strconv.ParseInt(string(b[:i]), 10, 64)
	if err != nil {
		panic(fmt.Sprintf("goid: %v", err))
	}
	return id
}

// Trace is a per-scenario event buffer: scenarios running in parallel record
// into their own Trace (events ordered by the Trace's mutex) and append it to
// the sink atomically when done.
type Trace struct {
	mu    sync.Mutex
	s     *Sink
	class string
	desc  string
	kv    []any
	lines [][]byte
	done  bool
	live  bool // events go straight to the sink (sequential drivers whose subject may crash the process)
}

// BeginLive starts a trace whose events are written (and flushed, if the sink flushes) at once.
// Only one live trace may be open at a time.
func (s *Sink) BeginLive(class, desc string, kv ...any) *Trace {
	s.Reset(class, desc, kv...)
	return &Trace{s: s, live: true}
}

// Begin starts a buffered trace.
func (s *Sink) Begin(class, desc string, kv ...any) *Trace {
	return &Trace{s: s, class: class, desc: desc, kv: kv}
}

// Emit appends one event to the buffered trace. Events emitted after End are dropped
// and counted (late callbacks of a scenario that was already closed).
func (t *Trace) Emit(ev string, kv ...any) {
	var b bytes.Buffer
	b.WriteString(`{"e":`)
	b.WriteString(strconv.Quote(ev))
	for i := 0; i+1 < len(kv); i += 2 {
		b.WriteByte(',')
		b.WriteString(strconv.Quote(kv[i].(string)))
		b.WriteByte(':')
		appendVal(&b, kv[i+1])
	}
	b.WriteString("}\n")
	t.mu.Lock()
	if !t.done {
		if t.live {
			t.s.mu.Lock()
			t.s.w.Write(b.Bytes())
			t.s.n++
			if t.s.Flush {
				t.s.w.Flush()
			}
			t.s.mu.Unlock()
		} else {
			t.lines = append(t.lines, b.Bytes())
		}
	}
	t.mu.Unlock()
}

// End writes the trace to the sink.
func (t *Trace) End() {
	t.mu.Lock()
	t.done = true
	lines := t.lines
	t.mu.Unlock()
	if t.live {
		return
	}
	s := t.s
	s.mu.Lock()
	defer s.mu.Unlock()
	s.tid++
	all := append([]any{"t", s.tid, "k", t.class, "desc", t.desc}, t.kv...)
	s.write("reset", all)
	for _, l := range lines {
		s.w.Write(l)
		s.n++
	}
}
